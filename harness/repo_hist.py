"""Shared executor for the repository-level properties C02 C03 C06 C07 C08: random multi-user
histories on the real Repository over an in-memory backend, lifting of the real object set to the
layer-1 state of Model/Repo.v, evaluation of the model's [exec] on the same commands by vm_compute,
and the model-free oracles of each property.  DESIGN.md sections 3.4, 4 (C02...C08)."""
from __future__ import annotations

import asyncio
import contextlib
import copy
import io
import json
import os
import random
import shutil
from pathlib import Path

from harness import core
from harness.core import Report
from harness.memstore import MemBackend, AsyncMemBackend

KDF = {'name': 'scrypt', 'n': 4, 'r': 1, 'p': 1}


def repo_hist_columns():
    from replicat.utils import FileListColumn
    return FileListColumn


class FlakyRead:
    """Wraps a backend: ONE download of a snapshot object returns a truncated copy (a transient bad read)."""

    def __init__(self, inner, rng):
        self.inner, self.rng, self.armed, self.hit = inner, rng, True, None

    def __getattr__(self, name):
        return getattr(self.inner, name)

    def download(self, name):
        data = self.inner.download(name)
        if self.armed and name.startswith('snapshots/') and self.rng.random() < 0.5:
            self.armed, self.hit = False, name
            return data[:max(1, len(data) // 2)]
        return data


class Killed(Exception):
    """Simulated death of the process: raised by every backend call from the crash point on."""


class FaultBackend:
    """Wraps a backend: at the k-th mutating call either 'crash' (that call and all later calls raise,
    nothing further reaches the store) or 'fail' (that call, and any repeat of it, fails for good)."""

    def __init__(self, inner, mode=None, at=None):
        self.inner, self.mode, self.at = inner, mode, at
        self.mutations = 0
        self.dead = False
        self.failed_names = set()
        self.trace = []
        self.inflight = 0

    def _mut(self, kind, name):
        if self.dead:
            raise Killed()
        idx = self.mutations
        self.mutations += 1
        if name in self.failed_names:
            raise RuntimeError('injected permanent failure')
        if self.mode is not None and idx == self.at:
            if self.mode == 'crash':
                self.dead = True
                raise Killed()
            if self.mode == 'fail_late':
                # the failing call takes its time (retries, time-outs) before it gives up: everything else may have finished by then
                import time as _time
                _time.sleep(0.15)
            self.failed_names.add(name)
            raise RuntimeError('injected permanent failure')
        self.trace.append((kind, name))

    def _alive(self):
        if self.dead:
            raise Killed()

    def exists(self, name):
        self._alive(); return self.inner.exists(name)

    def upload(self, name, data):
        self._mut('put', name)
        self.inflight += 1
        try:
            return self.inner.upload(name, data)
        finally:
            self.inflight -= 1

    def upload_stream(self, name, stream, length, chunk_size=128_000):
        self._mut('put', name)
        self.inflight += 1
        try:
            return self.inner.upload_stream(name, stream, length, chunk_size)
        finally:
            self.inflight -= 1

    def download(self, name):
        self._alive(); return self.inner.download(name)

    def download_stream(self, name, stream, chunk_size=128_000):
        self._alive(); return self.inner.download_stream(name, stream, chunk_size)

    def list_files(self, prefix=''):
        self._alive(); return self.inner.list_files(prefix)

    def delete(self, name):
        self._mut('del', name)
        self.inflight += 1
        try:
            return self.inner.delete(name)
        finally:
            self.inflight -= 1

    def clean(self):
        self._alive()

    def close(self):
        pass


class JitterPool:
    """Stand-in for ThreadPoolExecutor inside replicat.repository: every submitted job starts after a small random delay, so that
    jobs of one pool complete in an order unrelated to their submission order (a loaded machine)."""
    rng = random.Random(0)

    def __new__(cls, *a, **k):
        from concurrent.futures import ThreadPoolExecutor
        import time as _time

        class _Pool(ThreadPoolExecutor):
            def submit(self, fn, /, *args, **kwargs):
                d = JitterPool.rng.random() * 0.004

                def late():
                    _time.sleep(d)
                    return fn(*args, **kwargs)
                return super().submit(late)
        return _Pool(*a, **k)


def quiet():
    return contextlib.redirect_stdout(io.StringIO()), contextlib.redirect_stderr(io.StringIO())


class World:
    """One repository, several users, ground truth of every snapshot taken."""

    def __init__(self, seed, encrypted, scratch: Path, concurrent=2, delay=0.0, nusers=3, chunking=(16, 64)):
        from replicat.repository import Repository
        self.Repository = Repository
        self.rng = random.Random(seed)
        self.encrypted = encrypted
        self.scratch = scratch
        self.concurrent = concurrent
        self.backend = MemBackend(random.Random(seed + 7), delay)
        self.users = []          # dicts: name, password, key, fam, uid
        self.snaps = {}          # name -> dict(owner, files{path: bytes}, table[digest], sid, location)
        self.digest_ids = {}
        self.next_sid = 100
        self.pool = [self.rng.randbytes(self.rng.choice([40, 90, 130, 200])) for _ in range(10)]
        self.chunking = chunking
        self.nusers = nusers
        self.nfiles = 0
        self.setup_log = []
        self.orphans = {}        # location -> (fam, digest id) of chunks uploaded by interrupted snapshots
        self.long_lived = False
        self.one_object = False
        self._shared_repo = None
        self._repos = {}

    # -- helpers
    def did(self, digest):
        return self.digest_ids.setdefault(bytes(digest), len(self.digest_ids))

    def repo(self, backend=None, cache=None):
        return self.Repository(backend or self.backend, concurrent=self.concurrent, quiet=True, cache_directory=cache)

    def cache_for(self, user):
        """snapshot cache directory of this user's client (None = cache disabled): per user, or one directory for everybody"""
        mode = getattr(self, 'cache_mode', None)
        if not mode:
            return None
        d = self.scratch / 'cache' / (user['name'] if mode == 'per_user' else 'shared')
        d.mkdir(parents=True, exist_ok=True)
        return d

    async def unlocked(self, user, backend=None, cache=None, fresh=False):
        # library use: one long-lived Repository object per user (the CLI makes a fresh one per command)
        if getattr(self, 'long_lived', False) and backend is None and cache is None and not fresh:
            if user['name'] not in self._repos:
                r = self.repo(cache=self.cache_for(user))
                await r.unlock(password=user['password'], key=user['key'])
                self._repos[user['name']] = r
            return self._repos[user['name']]
        if getattr(self, 'one_object', False) and backend is None and cache is None and not fresh:
            # library use: ONE Repository object, unlocked again with the credentials of whoever issues the command
            if self._shared_repo is None:
                self._shared_repo = self.repo()
            await self._shared_repo.unlock(password=user['password'], key=user['key'])
            return self._shared_repo
        r = self.repo(backend, cache if cache is not None else self.cache_for(user))
        await r.unlock(password=user['password'], key=user['key'])
        return r

    async def setup(self):
        r = self.repo()
        settings = {'chunking': {'min_length': self.chunking[0], 'max_length': self.chunking[1]},
                    'hashing': {'name': 'blake2b', 'length': 32}}
        if self.encrypted:
            settings['encryption'] = {'cipher': {'name': self.rng.choice(['aes_gcm', 'chacha20_poly1305'])}, 'kdf': dict(KDF)}
        else:
            settings['encryption'] = None
        pw = (b'pw0' if self.rng.random() < 0.6 or getattr(self, 'default_kdf', False) else b'L' * 70 + b'pw0') if self.encrypted else None
        init = await r.init(password=pw, settings=settings)
        self.users.append({'name': 'u0', 'password': pw, 'key': init.key, 'fam': 0, 'uid': 0, 'how': 'init'})
        nfam = 1
        for i in range(1, self.nusers):
            if not self.encrypted:
                self.users.append({'name': f'u{i}', 'password': None, 'key': None, 'fam': 0, 'uid': 0, 'how': 'unencrypted'})
                continue
            how = self.rng.choice(['shared', 'shared', 'clone', 'independent'])
            src = self.rng.choice(self.users)
            # add-key without any KDF settings (what `replicat add-key --shared` does by default) in some worlds
            kset = None if getattr(self, 'default_kdf', False) else {'encryption': {'kdf': dict(KDF)}}
            if how == 'independent':
                rr = self.repo()
                newpw = f'pw{i}'.encode() if self.rng.random() < 0.6 or kset is None else b'L' * 70 + f'pw{i}'.encode()
                res = await rr.add_key(password=newpw, settings=kset, shared=False)
                self.users.append({'name': f'u{i}', 'password': newpw, 'key': res.new_key, 'fam': nfam, 'uid': i, 'how': how})
                nfam += 1
            else:
                rr = await self.unlocked(src)
                newpw = src['password'] if how == 'clone' else (f'pw{i}'.encode() if self.rng.random() < 0.6 or kset is None else b'L' * 70 + f'pw{i}'.encode())
                res = await rr.add_key(password=newpw, settings=kset, shared=True)
                self.users.append({'name': f'u{i}', 'password': newpw, 'key': res.new_key, 'fam': src['fam'], 'uid': i,
                                   'how': how, 'src': src['name']})
        self.setup_log = [(u['name'], u['how'], u['fam']) for u in self.users]

    def make_files(self, tag):
        """A file set with heavy overlap: contents are concatenations of pool blocks."""
        d = self.scratch / f'src-{tag}-{self.nfiles}'
        self.nfiles += 1
        d.mkdir(parents=True)
        files = {}
        for j in range(self.rng.choice([1, 2, 3])):
            k = self.rng.random()
            if k < 0.15:
                content = b''
            else:
                content = b''.join(self.rng.choice(self.pool) for _ in range(self.rng.choice([1, 2, 3, 5])))
                if self.rng.random() < 0.3:
                    content = content[:self.rng.randint(1, len(content))]
            p = d / f'f{j}'
            p.write_bytes(content)
            files[str(p.resolve())] = content
        if self.rng.random() < 0.35:
            # equal sizes, equal base names, different directories, different contents
            n = self.rng.choice([60, 150, 260])
            for k in range(self.rng.choice([2, 3])):
                sub = d / f'd{k}'
                sub.mkdir()
                p = sub / 'blob.bin'
                content = self.rng.randbytes(n)
                p.write_bytes(content)
                files[str(p.resolve())] = content
        return d, files

    # -- commands (each on a fresh Repository object, like a fresh process)
    async def snapshot(self, user, src_dir, files, backend=None, note=None, record=True, fresh=False, rate_limit=None, same_object=False):
        try:
            # (recompiled native chunker only) what lies in memory behind a chunking buffer differs from command to command
            import _replicat_adapters as _A
            if hasattr(_A, 'GUARD_LEN'):
                _A.GUARD = self.rng.randbytes(7)
        except ImportError:
            pass
        if same_object and backend is not None and getattr(self, 'long_lived', False):
            # library use: the command that meets the failing backend call is issued on the user's long-lived Repository object,
            # which goes on to serve the later commands of the history (the process did not die: the call returned an error)
            r = await self.unlocked(user)
            healthy, r.backend = r.backend, backend
            # the failing backend stays in place until the caller has declared it dead and its calls have drained (unswap): worker
            # coroutines of the failed command that are still alive must not reach the healthy store behind the harness's back
            self._swapped = (r, healthy)
            res = await r.snapshot(paths=list(src_dir) if isinstance(src_dir, (list, tuple)) else [src_dir], note=note, rate_limit=rate_limit)
            self.unswap()
            calls, before = [], 0
        else:
            r = await self.unlocked(user, backend, fresh=fresh)
            calls = getattr(self.backend, 'calls', [])
            before = sum(1 for c in calls if c[0] == 'upload_stream')
            res = await r.snapshot(paths=list(src_dir) if isinstance(src_dir, (list, tuple)) else [src_dir], note=note, rate_limit=rate_limit)
        uploaded = [c[1] for c in calls[0:] if c[0] == 'upload_stream'][before:]
        if not record:
            return res, {r._chunk_digest_to_location(d): (user['fam'], self.did(d)) for d in res.chunks}
        sid = self.next_sid
        self.next_sid += 1
        self.snaps[res.name] = {'owner': user['name'], 'fam': user['fam'], 'uid': user['uid'], 'files': files,
                                'table': [bytes(d) for d in res.chunks], 'sid': sid, 'location': res.location,
                                'chunk_locations': {bytes(d): r._chunk_digest_to_location(d) for d in res.chunks}}
        for d in res.chunks:
            self.did(d)
        return res, uploaded

    def unswap(self):
        sw = getattr(self, '_swapped', None)
        if sw is not None:
            sw[0].backend = sw[1]
            self._swapped = None

    async def delete(self, user, names, backend=None):
        r = await self.unlocked(user, backend)
        await r.delete_snapshots(list(names), confirm=False)

    async def clean(self, user, backend=None):
        r = await self.unlocked(user, backend)
        await r.clean()

    async def restore_check(self, name):
        """Owner restores the snapshot by name; returns None if identical to ground truth, else a message."""
        s = self.snaps[name]
        user = next(u for u in self.users if u['name'] == s['owner'])
        r = await self.unlocked(user)
        out = self.scratch / f'restore-{self.nfiles}'
        self.nfiles += 1
        out.mkdir()
        try:
            try:
                res = await r.restore(snapshot_regex='^' + name + '$', path=out)
            except Exception as e:
                return f'restore of a listed snapshot failed: {type(e).__name__}: {str(e)[:120]}'
            if sorted(res.files) != sorted(s['files']):
                return f'restore returned {len(res.files)} files, snapshot had {len(s["files"])}'
            for path, content in s['files'].items():
                t = Path(out, *Path(path).parts[1:])
                if not t.is_file() or t.read_bytes() != content:
                    return 'restored content differs from the content captured by the snapshot'
            return None
        finally:
            shutil.rmtree(out, ignore_errors=True)

    # -- lifting the real object set to the layer-1 state
    def lift(self, objects=None):
        objects = self.backend.objects if objects is None else objects
        loc2chunk = dict(self.orphans)
        for name, s in self.snaps.items():
            for d, loc in s['chunk_locations'].items():
                loc2chunk[loc] = (s['fam'], self.did(d))
        # locations of every known digest under every family that ever computed it
        chunks, snaps, foreign = set(), set(), []
        loc2snap = {s['location']: n for n, s in self.snaps.items()}
        for obj in objects:
            if obj.startswith('data/'):
                if obj in loc2chunk:
                    chunks.add(loc2chunk[obj])
                else:
                    foreign.append(obj)
            elif obj.startswith('snapshots/'):
                if obj in loc2snap:
                    snaps.add(self.snaps[loc2snap[obj]]['sid'])
                else:
                    foreign.append(obj)
        return chunks, snaps, foreign

    def model_snap(self, name):
        s = self.snaps[name]
        return (s['sid'], s['fam'], s['uid'], [self.did(d) for d in s['table']])

    def model_store(self):
        ch, sn, _ = self.lift()
        snaps = [self.model_snap(n) for n, s in self.snaps.items() if s['location'] in self.backend.objects]
        return (sorted(ch), snaps)

    def referenced(self, objects=None):
        """(fam, digest id) pairs referenced by the snapshot objects present."""
        objects = self.backend.objects if objects is None else objects
        out = set()
        for n, s in self.snaps.items():
            if s['location'] in objects:
                out |= {(s['fam'], self.did(d)) for d in s['table']}
        return out


# --------------------------------------------------------------------------- model evaluation
def coq_store(chunks, snaps):
    cs = '[' + '; '.join(f'({f}, {d})' for f, d in chunks) + ']'
    ss = '[' + '; '.join('{| s_id := %d; s_fam := %d; s_usr := %d; s_tab := %s |}' % (sid, f, u, core.coq_nat_list(tab))
                         for sid, f, u, tab in snaps) + ']'
    return '{| chunks := %s; snaps := %s |}' % (cs, ss)


def coq_op(op):
    k = op[0]
    if k == 'snap':
        _, u, f, sid, tab = op
        return f'OSnap {u} {f} {sid} {core.coq_nat_list(tab)}'
    if k == 'del':
        _, u, f, ids = op
        return f'ODel {u} {f} {core.coq_nat_list(ids)}'
    return f'OClean {op[1]}'


def model_eval(cases, per_file=60):
    """cases: list of (store0 = (chunks, snaps), [ops]).  Returns per case a list of
    (sorted chunk pairs, sorted snapshot ids, ok flag) after each op."""
    def text(batch):
        L = ['From Coq Require Import List Arith Bool.', 'From Replicat Require Import Model.Repo.', 'Import ListNotations.',
             'Fixpoint trace (st : store) (ops : list op) : list (list (nat * nat) * list nat * bool) :=',
             '  match ops with [] => [] | o :: r => let (st1, ok) := exec st o in (chunks st1, map s_id (snaps st1), ok) :: trace st1 r end.',
             'Definition cases : list (store * list op) := [']
        L.append(';\n'.join('  (%s, [%s])' % (coq_store(*st0), '; '.join(coq_op(o) for o in ops)) for st0, ops in batch))
        L.append('].')
        L.append("Eval vm_compute in map (fun c => trace (fst c) (snd c)) cases.")
        return '\n'.join(L) + '\n'
    jobs = [(f'repo_{i // per_file}', text(cases[i:i + per_file])) for i in range(0, len(cases), per_file)]
    res = core.coq_eval_files(jobs)
    out = []
    for name, _ in jobs:
        rc, t = res[name]
        if rc != 0:
            return None, t[-1500:]
        for tr in core.parse_coq_term(core.parse_coq_values(t)[-1]):
            out.append([(sorted(tuple(c) for c in cs), sorted(ids), ok) for cs, ids, ok in tr])
    return out, ''


# --------------------------------------------------------------------------- one random history
def run_history(seed, scratch: Path, rep: Report, *, nops, weights, checks, concurrent=2, delay=0.0, encrypted=None, mode=None):
    """Executes one history.  weights: op kind -> weight.  checks: set of oracle groups to apply
    ('restore', 'exact', 'frame', 'dedup', 'access').  Returns (model_case, observations) for the
    correspondence, appending violations to rep."""
    rng = random.Random(seed)
    if encrypted is None:
        encrypted = rng.random() < 0.75
    world = World(seed, encrypted, scratch, concurrent=concurrent, delay=delay, nusers=rng.choice([2, 3, 4]),
                  chunking=rng.choice([(16, 64), (8, 32), (32, 96), (12, 61), (8, 35)]))
    mode_ = rng.random()
    world.long_lived = mode_ < 0.25
    world.one_object = 0.25 <= mode_ < 0.45
    if mode is not None:
        world.long_lived, world.one_object = mode == 'long_lived', mode == 'one_object'
    world.cache_mode = rng.choice([None, None, None, 'per_user', 'shared'])
    world.default_kdf = encrypted and rng.random() < 0.3
    segments = [[([], []), [], []]]      # [store0, model ops, observations]
    descr = []
    ops_model, observed = segments[0][1], segments[0][2]
    violations = rep.violations

    def viol(kind, what, extra=None):
        violations.append({'what': what, 'signature': {'kind': kind, 'encrypted': encrypted},
                           'replay': {'seed': seed, 'ops_so_far': list(descr), 'users': world.setup_log, 'detail': extra}})

    class Abort(Exception):
        pass

    async def cmd(coro, what):
        """a real command of a legal history must not fail"""
        try:
            return await asyncio.wait_for(coro, 120)
        except (asyncio.TimeoutError, TimeoutError):
            viol('exception', f'{what} did not return within 120 s (a legal command of a fault-free history hangs)')
            raise Abort()
        except Exception as e:
            import traceback
            viol('exception', f'{what} raised {type(e).__name__}: {str(e)[:150]}', traceback.format_exc()[-1200:])
            raise Abort()

    async def observe_access(user):
        """what does this user see?  list-snapshots rows, list-files rows, restore of others' snapshots"""
        present = {n: s_ for n, s_ in world.snaps.items() if s_['location'] in world.backend.objects}
        r = await world.unlocked(user)
        buf = io.StringIO()
        with contextlib.redirect_stdout(buf):
            await cmd(r.list_snapshots(header=False), 'list-snapshots')
        rows = [ln.split('\t') for ln in buf.getvalue().splitlines() if ln.strip()]
        seen = {row[0].strip(): row for row in rows}
        want_visible = {n for n, s_ in present.items() if s_['fam'] == user['fam']}
        if set(seen) != want_visible:
            viol('visibility', f'list-snapshots shows {len(seen)} snapshot(s), the caller\'s key family has {len(want_visible)}',
                 {'caller': user['name'], 'extra': sorted(set(seen) - want_visible)[:3], 'missing': sorted(want_visible - set(seen))[:3]})
        for n, row in seen.items():
            if n not in present:
                continue
            readable = row[2].strip() != '--'
            own = present[n]['uid'] == user['uid']
            if readable != own:
                viol('details', 'snapshot details (note, time, files) are %s to a user who %s its key' %
                     ('shown' if readable else 'hidden', 'does not hold' if not own else 'holds'), {'caller': user['name'], 'owner': present[n]['owner']})
        # the same listing with another choice of columns (also without the name): one row per snapshot of the caller's family, whatever is shown
        from replicat.utils import SnapshotListColumn as SC
        cols = rng.choice([[SC.TIMESTAMP, SC.FILE_COUNT, SC.SIZE], [SC.NOTE], [SC.SIZE, SC.NAME], [SC.FILE_COUNT], [SC.NOTE, SC.TIMESTAMP]])
        buf = io.StringIO()
        with contextlib.redirect_stdout(buf):
            await cmd(r.list_snapshots(header=False, columns=cols), 'list-snapshots')
        nrows = len([ln for ln in buf.getvalue().splitlines() if ln.strip()])
        if nrows != len(want_visible):
            viol('visibility', f'list-snapshots with columns {[c.value for c in cols]} shows {nrows} row(s), the caller\'s key family has {len(want_visible)} snapshot(s)',
                 {'caller': user['name']})
        # ... and with a filter on the snapshot name (all, a prefix, the complete name of somebody's snapshot): the rows are those of the
        # caller's family whose NAME matches, whether or not the caller can read their details
        if want_visible:
            import re as _re
            pick = rng.choice(sorted(want_visible))
            flt = rng.choice(['.', '^' + pick[:6], '^' + pick + '$', pick[3:11]])
            buf = io.StringIO()
            with contextlib.redirect_stdout(buf):
                await cmd(r.list_snapshots(header=False, snapshot_regex=flt), 'list-snapshots')
            got_ = {ln.split('\t')[0].strip() for ln in buf.getvalue().splitlines() if ln.strip()}
            want_ = {n for n in want_visible if _re.search(flt, n)}
            if got_ != want_:
                viol('visibility', f'list-snapshots with the name filter {flt!r} shows {len(got_)} snapshot(s), {len(want_)} snapshot(s) of the caller\'s key family match it',
                     {'caller': user['name'], 'missing': sorted(want_ - got_)[:3], 'extra': sorted(got_ - want_)[:3]})
        buf = io.StringIO()
        with contextlib.redirect_stdout(buf):
            await r.list_files(header=False, columns=[repo_hist_columns().SNAPSHOT_NAME, repo_hist_columns().PATH])
        listed = {ln.split('\t')[0].strip() for ln in buf.getvalue().splitlines() if ln.strip()}
        foreign = {n for n in listed if n in present and present[n]['uid'] != user['uid']}
        if foreign:
            viol('file_list_foreign', 'list-files shows files of a snapshot made under another key', {'caller': user['name']})
        others_ = [n for n, s_ in present.items() if s_['uid'] != user['uid']]
        if others_:
            victim = rng.choice(others_)
            out = world.scratch / f'steal-{world.nfiles}'
            world.nfiles += 1
            out.mkdir()
            try:
                res = await r.restore(snapshot_regex='^' + victim + '$', path=out)
                got = [p for p in out.rglob('*') if p.is_file()]
                if res.files or got:
                    viol('restore_foreign', "restore wrote files of another user's snapshot", {'caller': user['name'], 'owner': present[victim]['owner']})
            except Exception as e:
                viol('restore_foreign_crash', f"restore naming another user's snapshot (nothing to restore for the caller) raised {type(e).__name__}: {str(e)[:80]}",
                     {'caller': user['name'], 'owner': present[victim]['owner']})
            finally:
                shutil.rmtree(out, ignore_errors=True)

    async def unlock_matrix():
        for ku in world.users:
            for pu in world.users:
                if ku['key'] is None:
                    continue
                r = world.repo()
                should = ku['password'] == pu['password']
                try:
                    await r.unlock(password=pu['password'], key=ku['key'])
                    ok = True
                except Exception as e:
                    ok = False
                    if type(e).__name__ not in ('DecryptionError', 'ReplicatError'):
                        viol('unlock_crash', f'unlock with a wrong password raised {type(e).__name__}')
                if ok != should:
                    viol('unlock', 'a key was %s by %s password' % ('unlocked' if ok else 'not unlocked', 'another' if not should else 'its own'),
                         {'key_of': ku['name'], 'password_of': pu['name']})
        # a user KDF other than the default: a key made with it must also open with its own password only,
        # including passwords that differ from the right one only after a long common head
        for kdf in ({'name': 'blake2b'}, {'name': 'scrypt', 'n': 4, 'r': 1, 'p': 1}):
            for pw_ in (b'short-pw', b'H' * 64 + b'tail-one', b'H' * 100):
                try:
                    src_ = world.users[0]
                    rr = world.repo()
                    await rr.unlock(password=src_['password'], key=src_['key'])
                    printed_ = io.StringIO()
                    with contextlib.redirect_stdout(printed_):
                        res = await rr.add_key(password=pw_, settings={'encryption': {'kdf': dict(kdf)}}, shared=rng.random() < 0.5)
                except Exception:
                    continue                      # this KDF does not accept such a password: nothing was produced
                # the key as a user gets it from `replicat add-key > new.key`
                text_ = printed_.getvalue().strip()
                if text_:
                    for bad in (pw_ + b'x', b'not-the-password', b''):
                        try:
                            await world.repo().unlock(password=bad, key=text_)
                            viol('unlock', 'the key printed by add-key was unlocked by a wrong password', {'kdf': kdf['name'], 'via': 'stdout'})
                            break
                        except Exception:
                            pass
                    try:
                        await world.repo().unlock(password=pw_, key=text_)
                    except Exception as e:
                        viol('unlock', f'the key printed by add-key does not open with its own password ({type(e).__name__})', {'kdf': kdf['name'], 'via': 'stdout'})
                for bad in (pw_[:-1], pw_ + b'x', pw_[:64] + b'tail-two', pw_[:64], b'H' * 99 + b'I', pw_ + b'\n', pw_ + b'\r\n', pw_ + b' '):
                    if bad == pw_:
                        continue
                    try:
                        await world.repo().unlock(password=bad, key=res.new_key)
                        viol('unlock', 'a key was unlocked by a wrong password', {'kdf': kdf['name'], 'password_len': len(pw_), 'wrong_len': len(bad)})
                    except Exception:
                        pass
                try:
                    await world.repo().unlock(password=pw_, key=res.new_key)
                except Exception as e:
                    viol('unlock', f'a key was not unlocked by its own password ({type(e).__name__})', {'kdf': kdf['name'], 'password_len': len(pw_)})
        # a key of the right user but mangled password
        u = rng.choice([u for u in world.users if u['key'] is not None] or [None])
        if u is not None:
            # a password that differs only by trailing NUL bytes is another password
            for bad in (u['password'] + b'\x00', u['password'] + b'\x00\x00\x00'):
                if len(u['password']) >= 64:
                    break
                try:
                    await world.repo().unlock(password=bad, key=u['key'])
                    viol('unlock_trailing_nul', 'a key made with the default (scrypt) KDF is unlocked by its password followed by NUL bytes: '
                                                'PBKDF2-HMAC zero-pads short passwords, so pw and pw+NUL derive the same key', {'key_of': u['name']})
                    break
                except Exception:
                    pass
            pw0 = u['password']
            # ... and passwords a forgiving reader would map to the right one: line breaks / blanks around it, another case
            for bad in (pw0 + b'x', pw0[:-1], b'', pw0[:64], pw0 + b'\n', pw0 + b'\r\n', pw0 + b'\r', pw0 + b' ', b' ' + pw0, pw0 + b'\n\n', pw0.swapcase()):
                if bad == u['password']:
                    continue
                try:
                    await world.repo().unlock(password=bad, key=u['key'])
                    viol('unlock', 'a key was unlocked by a wrong password', {'key_of': u['name']})
                except Exception:
                    pass

    async def go():
        nonlocal ops_model, observed
        try:
            await go_inner()
        except Abort:
            pass
        return world

    async def go_inner():
        nonlocal ops_model, observed
        await cmd(world.setup(), 'init/add-key')
        # objects outside the chunk and snapshot areas must never be touched
        world.backend.objects['other/keep'] = b'foreign'
        config0 = world.backend.objects['config']
        kinds, ws = zip(*weights.items())
        for step in range(nops):
            kind = rng.choices(kinds, ws)[0]
            user = rng.choice(world.users)
            own = [n for n, s in world.snaps.items() if s['owner'] == user['name'] and s['location'] in world.backend.objects]
            others = [n for n, s in world.snaps.items() if s['owner'] != user['name'] and s['location'] in world.backend.objects
                      and not (s['fam'] == user['fam'] and s['uid'] == user['uid'])]
            before_objects = dict(world.backend.objects)
            if kind == 'delete' and not own:
                kind = 'snapshot'
            if kind == 'delete_foreign' and not others:
                kind = 'snapshot'
            if kind == 'snapshot' or kind == 'repeat':
                if kind == 'repeat' and world.snaps:
                    # the same data again, by a (possibly different) member of the same family
                    prev = rng.choice(list(world.snaps.values()))
                    mates = [u for u in world.users if u['fam'] == prev['fam']]
                    user = rng.choice(mates)
                    # the same unchanged files, named one by one in another order
                    src_dir = [Path(p_) for p_ in prev['files']]
                    rng.shuffle(src_dir)
                    files = prev['files']
                    present_before = world.referenced() & {(prev['fam'], world.did(d)) for d in prev['table']}
                    all_present = {(prev['fam'], world.did(d)) for d in prev['table']} <= world.lift()[0]
                else:
                    src_dir, files = world.make_files(user['name'])
                    all_present = False
                # any rate limit (the limiter's pauses are skipped, see below): what is stored must not depend on it
                rl = rng.choice([None, None, 64, 300, 5000]) if kind == 'repeat' or rng.random() < 0.2 else None
                res, uploaded = await cmd(world.snapshot(user, src_dir, files, rate_limit=rl), 'snapshot')
                descr.append(['snapshot', user['name'], res.name[:8]] + ([f'limit={rl}'] if rl else []))
                ops_model.append(('snap', user['uid'], user['fam'], world.snaps[res.name]['sid'], [world.did(d) for d in res.chunks]))
                if 'dedup' in checks:
                    newobjs = set(world.backend.objects) - set(before_objects)
                    want = {world.snaps[res.name]['chunk_locations'][bytes(d)] for d in res.chunks} - set(before_objects)
                    if set(uploaded) != want:
                        viol('upload_set', f'snapshot uploaded {len(set(uploaded))} distinct chunk objects, {len(want)} were missing')
                    if kind == 'repeat' and all_present and uploaded:
                        viol('repeat_uploaded_payload', f'snapshot of unchanged data transferred {len(uploaded)} chunk payload(s)')
                    if len(set(res.chunks)) != len(res.chunks):
                        viol('table_dup', 'snapshot chunk table lists a digest twice')
            elif kind == 'pair':
                u2 = rng.choice(world.users)
                d1, f1 = world.make_files(user['name'])
                d2, f2 = (d1, f1) if rng.random() < 0.3 else world.make_files(u2['name'])
                (r1, _), (r2, _) = await cmd(asyncio.gather(world.snapshot(user, d1, f1, fresh=True), world.snapshot(u2, d2, f2, fresh=True)), 'concurrent snapshots')
                descr.append(['concurrent-snapshots', user['name'], u2['name']])
                for u_, r_ in ((user, r1), (u2, r2)):
                    ops_model.append(('snap', u_['uid'], u_['fam'], world.snaps[r_.name]['sid'], [world.did(d) for d in r_.chunks]))
                    observed.append(None)       # intermediate state not observable
                observed.pop()
            elif kind == 'delete':
                names = rng.sample(own, rng.randint(1, min(2, len(own))))
                await cmd(world.delete(user, names), 'delete of own snapshots')
                descr.append(['delete', user['name'], [n[:8] for n in names]])
                ops_model.append(('del', user['uid'], user['fam'], [world.snaps[n]['sid'] for n in names]))
            elif kind == 'delete_foreign':
                victim = rng.choice(others)
                mixed = [victim] + (rng.sample(own, 1) if own and rng.random() < 0.5 else [])
                rng.shuffle(mixed)
                descr.append(['delete-foreign', user['name'], [n[:8] for n in mixed]])
                ok = False
                try:
                    await world.delete(user, mixed)
                    ok = True
                except Exception as e:
                    if type(e).__name__ != 'ReplicatError':
                        viol('delete_foreign_crash', f'delete of another user\'s snapshot raised {type(e).__name__} instead of a refusal')
                if ok and 'access' in checks:
                    viol('delete_foreign_succeeded', "delete of another user's snapshot was accepted",
                         {'caller': user['name'], 'owner': world.snaps[victim]['owner']})
                if world.backend.objects != before_objects and 'access' in checks:
                    viol('refused_delete_mutated', 'a refused delete changed the repository')
                ops_model.append(('del', user['uid'], user['fam'], [world.snaps[n]['sid'] for n in mixed]))
            elif kind == 'observe':
                await observe_access(user)
                if world.cache_mode:
                    # an earlier run was interrupted while writing a cache entry: empty / proper prefix / one flipped byte
                    files_ = [p_ for p_ in (world.scratch / 'cache').rglob('*') if p_.is_file()] if (world.scratch / 'cache').exists() else []
                    for p_ in rng.sample(files_, min(len(files_), rng.choice([0, 1, 2]))):
                        data_ = p_.read_bytes()
                        how_ = rng.choice(['empty', 'prefix', 'flip'])
                        if how_ == 'empty' or len(data_) < 2:
                            p_.write_bytes(b'')
                        elif how_ == 'prefix':
                            p_.write_bytes(data_[:rng.randrange(1, len(data_))])
                        else:
                            i_ = rng.randrange(len(data_))
                            p_.write_bytes(data_[:i_] + bytes([data_[i_] ^ 1]) + data_[i_ + 1:])
                descr.append(['observe', user['name']] + (['cache-damaged'] if world.cache_mode else []))
                continue
            elif kind == 'faulty_clean':
                # one delete request fails for good during clean: if clean still reports success the family must be exact
                fbk = FaultBackend(world.backend, 'fail', rng.randint(0, 2))
                try:
                    await asyncio.wait_for(world.clean(user, backend=fbk), 60)
                    failed = False
                except Exception:
                    failed = True
                # the process ends with the error: sibling deletions that have not been issued yet never are
                fbk.dead = True
                for _ in range(2000):
                    if not fbk.inflight:
                        break
                    await asyncio.sleep(0.001)
                await asyncio.sleep(0.005)
                descr.append(['clean-with-a-failing-delete', user['name'], 'failed' if failed else 'completed'])
                ch_, _, _ = world.lift()
                if not failed:
                    extra_ = {c for c in ch_ if c[0] == user['fam']} - world.referenced()
                    if extra_ and 'exact' in checks:
                        viol('gc_incomplete', f'clean reported success but left {len(extra_)} unreferenced chunk(s) of the caller\'s family')
                segments.append([world.model_store(), [], []])
                ops_model, observed = segments[-1][1], segments[-1][2]
                continue
            elif kind == 'interrupted_delete':
                if not own:
                    continue
                names = rng.sample(own, 1)
                fbk = FaultBackend(world.backend, 'crash', rng.randint(0, 4))
                try:
                    await asyncio.wait_for(world.delete(user, names, backend=fbk), 60)
                except BaseException:
                    pass
                for _ in range(2000):
                    if not fbk.inflight:
                        break
                    await asyncio.sleep(0.001)
                await asyncio.sleep(0.005)
                descr.append(['interrupted-delete', user['name']])
                # a completed clean afterwards must leave the family exact (orphans collected, nothing referenced missing)
                await cmd(world.clean(user), 'clean')
                descr.append(['clean', user['name']])
                ch_, _, _ = world.lift()
                ref_ = world.referenced()
                fam_ = user['fam']
                if 'restore' in checks and (ref_ - ch_):
                    viol('referenced_chunk_missing', f'after an interrupted delete (and a clean) {len(ref_ - ch_)} chunk(s) referenced by a still listed snapshot are gone')
                if 'exact' in checks and {c for c in ch_ if c[0] == fam_} != {c for c in ref_ if c[0] == fam_}:
                    viol('gc_incomplete', f'after an interrupted delete and a completed clean the family has '
                                          f'{len({c for c in ch_ if c[0] == fam_} - ref_)} unreferenced and {len({c for c in ref_ if c[0] == fam_} - ch_)} missing chunk(s)')
                segments.append([world.model_store(), [], []])
                ops_model, observed = segments[-1][1], segments[-1][2]
                continue
            elif kind == 'flaky_gc':
                # delete or clean while ONE read of a snapshot object comes back truncated: the command may fail
                # (then nothing may have changed) or succeed; it must never proceed on a partial view
                fb = FlakyRead(world.backend, rng)
                what = 'clean' if not own or rng.random() < 0.5 else 'delete'
                names = rng.sample(own, 1) if what == 'delete' else []
                try:
                    if what == 'clean':
                        await asyncio.wait_for(world.clean(user, backend=fb), 60)
                    else:
                        await asyncio.wait_for(world.delete(user, names, backend=fb), 60)
                    failed = False
                except Exception:
                    failed = True
                descr.append(['gc-with-one-bad-snapshot-read', user['name'], what, 'failed' if failed else 'completed', bool(fb.hit)])
                if failed:
                    if world.backend.objects != before_objects:
                        viol('failed_gc_mutated', f'{what} failed on a corrupted snapshot read but had already changed the repository')
                    continue
                if fb.hit is not None:
                    # it completed although one snapshot could not be read: only acceptable if nothing referenced was lost
                    pass
                if what == 'clean':
                    ops_model.append(('clean', user['fam']))
                else:
                    ops_model.append(('del', user['uid'], user['fam'], [world.snaps[n]['sid'] for n in names]))
                kind = what
            elif kind == 'clean':
                await cmd(world.clean(user), 'clean')
                descr.append(['clean', user['name']])
                ops_model.append(('clean', user['fam']))
            elif kind == 'orphans':
                # an interrupted snapshot: some chunks of a fresh file set are uploaded, the snapshot object never is
                src_dir, files = world.make_files(user['name'])
                dry = MemBackend()
                dry.objects = dict(world.backend.objects)
                _, locs = await cmd(world.snapshot(user, src_dir, files, backend=dry, record=False), 'snapshot')
                world.orphans.update(locs)
                nmissing = len(set(dry.objects) - set(world.backend.objects)) - 1     # chunk uploads before the snapshot object
                r_ = rng.random()
                late = r_ < 0.35
                # (library use) one upload in the middle fails for good, the command ends with the error, the session lives on
                midfail = (not late) and getattr(world, 'long_lived', False) and r_ < 0.75
                fb = FaultBackend(world.backend, 'fail_late' if late else 'fail' if midfail else 'crash', rng.randint(0, max(0, nmissing)))
                snaps_before = {n for n in world.backend.objects if n.startswith('snapshots/')}
                overlapped = None
                try:
                    if late and rng.random() < 0.6:
                        # another session of the same key family snapshots the same files at the same time: it sees chunks the failing
                        # command has already uploaded and only references them
                        mate = rng.choice([u for u in world.users if u['fam'] == user['fam']])
                        # (if the fault point is never reached - the other session uploaded first - the command completes: recorded)
                        res_ = await asyncio.wait_for(asyncio.gather(world.snapshot(user, src_dir, files, backend=fb, record=True, same_object=late or midfail),
                                                                      world.snapshot(mate, src_dir, files, fresh=True), return_exceptions=True), 90)
                        overlapped = res_[1]
                        if isinstance(overlapped, BaseException):
                            viol('exception', f'a fault-free snapshot overlapping a failing one raised {type(overlapped).__name__}: {str(overlapped)[:120]}')
                    else:
                        await asyncio.wait_for(world.snapshot(user, src_dir, files, backend=fb, record=False, same_object=late or midfail), 60)
                except BaseException:
                    pass
                if late or midfail:
                    # one upload failed for good (late: after everything else had finished): the command ends there (with the error)
                    fb.dead = True
                for _ in range(2000):          # calls that were in flight at the kill may still land
                    if not fb.inflight:
                        break
                    await asyncio.sleep(0.001)
                await asyncio.sleep(0.005)
                if late or midfail:
                    # what is left of the failed command on the long-lived object is given time to run into the dead backend
                    await asyncio.sleep(0.05)
                world.unswap()
                if late:
                    lost = [n for n in fb.failed_names if n.startswith('data/') and n not in world.backend.objects]
                    published = {n for n in world.backend.objects if n.startswith('snapshots/')} - snaps_before
                    if lost and published:
                        viol('referenced_chunk_missing', 'a snapshot was published although the upload of one of its chunks had failed for good '
                                                         '(the failing call was the last to finish): it is listed but cannot be restored')
                descr.append(['snapshot-with-late-failing-upload' if late else 'snapshot-with-failing-upload' if midfail else 'interrupted-snapshot', user['name']] + (['overlapped'] if overlapped is not None else []))
                if overlapped is not None and 'restore' in checks:
                    ch_now, _, _ = world.lift()
                    gone_ = world.referenced() - ch_now
                    if gone_:
                        viol('referenced_chunk_missing', f'{len(gone_)} chunk(s) referenced by a snapshot that completed are gone after an overlapping snapshot command failed')
                segments.append([world.model_store(), [], []])
                ops_model, observed = segments[-1][1], segments[-1][2]
                continue
            elif kind == 'vanish':
                # a source file disappears while the command reads the stream (a lock file, a rotated log): the command may fail - then
                # nothing new is listed - but whatever it publishes must restore, without an error, to contents that were captured
                for _try in range(6):
                    src_dir, files = world.make_files(user['name'])
                    if len(files) >= 2:
                        break
                dry = MemBackend()
                dry.objects = dict(world.backend.objects)
                _, locs = await cmd(world.snapshot(user, src_dir, files, backend=dry, record=False), 'snapshot')
                world.orphans.update(locs)
                import replicat.repository as _RR
                orig_rm, fired_ = _RR.Repository.read_metadata, []
                paths_ = sorted(Path(p_) for p_ in files)

                def vanishing(self_, file, _fired=fired_, _paths=paths_, _orig=orig_rm):
                    if not _fired:
                        _fired.append(1)
                        last = None
                        for v in _paths:
                            try:
                                if os.fstat(file).st_ino != v.stat().st_ino:
                                    last = v
                            except OSError:
                                pass
                        if last is not None:
                            try:
                                last.unlink()
                            except OSError:
                                pass
                    return _orig(self_, file)
                snaps_before = {n for n in world.backend.objects if n.startswith('snapshots/')}
                _RR.Repository.read_metadata = vanishing
                try:
                    await asyncio.wait_for(world.snapshot(user, src_dir, files, record=False, fresh=True), 60)
                    done_ = 'completed'
                except BaseException:
                    done_ = 'failed'
                finally:
                    _RR.Repository.read_metadata = orig_rm
                descr.append(['snapshot-with-vanishing-source', user['name'], done_])
                published = sorted({n for n in world.backend.objects if n.startswith('snapshots/')} - snaps_before)
                for loc in published:
                    rr_ = await world.unlocked(user, fresh=True)
                    out_ = world.scratch / f'vanish-{world.nfiles}'
                    world.nfiles += 1
                    out_.mkdir()
                    try:
                        await rr_.restore(snapshot_regex='^' + rr_.parse_snapshot_location(loc).name + '$', path=out_)
                        for path_, content_ in files.items():
                            t_ = Path(out_, *Path(path_).parts[1:])
                            if t_.is_file() and t_.read_bytes() != content_:
                                viol('restore_mismatch', f'a snapshot published by a command during which a source file vanished (the command {done_}) restores a file to other '
                                                         'contents than it had')
                                break
                    except Exception as e:
                        viol('restore_mismatch', f'a snapshot published by a command during which a source file vanished (the command {done_}) is listed but cannot be '
                                                 f'restored: {type(e).__name__}: {str(e)[:100]}')
                    finally:
                        shutil.rmtree(out_, ignore_errors=True)
                if published:
                    raise Abort()          # the harness's ground truth does not know that snapshot: the history ends here
                segments.append([world.model_store(), [], []])
                ops_model, observed = segments[-1][1], segments[-1][2]
                continue
            # ---- observe
            ch, sn, foreign = world.lift()
            observed.append((sorted(ch), sorted(sn), True if kind != 'delete_foreign' else False))
            if foreign:
                viol('unknown_object', f'object(s) appeared that no command should have written: {foreign[:3]}')
            if world.backend.objects.get('config') != config0 or world.backend.objects.get('other/keep') != b'foreign':
                viol('config_touched', 'config or an object outside the chunk/snapshot areas was modified or removed')
            ref = world.referenced()
            if 'dedup' in checks and not world.orphans:
                if ch != ref:
                    viol('not_exact', f'chunk objects differ from the chunks referenced by the remaining snapshots: '
                                      f'{len(ch - ref)} unreferenced, {len(ref - ch)} missing (crash-free history)')
                locs = {}
                for n_, s_ in world.snaps.items():
                    for d_, loc_ in s_['chunk_locations'].items():
                        if locs.setdefault(loc_, (s_['fam'], d_)) != (s_['fam'], d_):
                            viol('family_alias', 'two different (family, chunk) pairs share one storage name')
            if 'restore' in checks:
                missing = ref - ch
                if missing:
                    viol('referenced_chunk_missing', f'{len(missing)} chunk(s) referenced by a listed snapshot are gone after {descr[-1][0]}')
            if 'exact' in checks and kind in ('clean', 'delete'):
                fam = user['fam']
                extra = {c for c in ch if c[0] == fam} - ref
                if kind == 'clean' and extra:
                    viol('gc_incomplete', f'clean left {len(extra)} unreferenced chunk(s) of the caller\'s family')
                if kind == 'delete':
                    expected_gone = {(fam, world.did(d)) for n in names for d in world.snaps[n]['table']} - ref
                    if expected_gone & ch:
                        viol('gc_incomplete', f'delete left {len(expected_gone & ch)} chunk(s) that only the deleted snapshots referenced')
                    if any(world.snaps[n]['location'] in world.backend.objects for n in names):
                        viol('gc_incomplete', 'delete left a named snapshot object in place')
            if 'frame' in checks and kind in ('clean', 'delete'):
                fam = user['fam']
                lost = {c for c in world.lift(before_objects)[0] if c[0] != fam} - ch
                if lost:
                    viol('gc_overreach', f'{kind} by family {fam} removed {len(lost)} chunk(s) of another family')
                lost_s = {s['sid'] for s in world.snaps.values() if s['location'] in before_objects and s['fam'] != fam} - sn
                if lost_s:
                    viol('gc_overreach', f'{kind} by family {fam} removed a snapshot of another family')
        # ---- final oracles
        if 'access' in checks and world.encrypted:
            await unlock_matrix()
        if 'restore' in checks:
            for n, s in world.snaps.items():
                if s['location'] in world.backend.objects:
                    msg = await world.restore_check(n)
                    if msg:
                        viol('restore_mismatch', msg, {'snapshot': n[:8], 'owner': s['owner']})
        return world

    import replicat.repository as _R
    import replicat.utils as _U
    import time as _time_mod

    class _NoPause:
        # the rate limiter's pauses are not waited for (the histories are about what is stored, not when)
        def __getattr__(self, name):
            return getattr(_time_mod, name)

        @staticmethod
        def sleep(seconds):
            return None
    saved_time = _U.time
    _U.time = _NoPause()
    saved_kdf = _R.Repository.DEFAULT_USER_KDF_NAME
    if world.default_kdf:
        _R.Repository.DEFAULT_USER_KDF_NAME = 'blake2b'      # the default scrypt work factor is far too expensive for a history
    jitter = rng.random() < 0.35
    saved_pool = _R.ThreadPoolExecutor
    if jitter:
        JitterPool.rng = random.Random(seed + 3)
        _R.ThreadPoolExecutor = JitterPool
    try:
        with quiet()[0], quiet()[1]:
            world = asyncio.run(go())
    finally:
        _R.ThreadPoolExecutor = saved_pool
        _U.time = saved_time
        _R.Repository.DEFAULT_USER_KDF_NAME = saved_kdf
    rep.count('thread_pool_jitter' if jitter else 'thread_pool_plain')
    rep.count('cache=' + str(world.cache_mode))
    rep.count('add_key_kdf=' + ('defaults' if world.default_kdf else 'explicit'))
    rep.count('encrypted' if encrypted else 'unencrypted')
    rep.count('long_lived_repository_objects' if world.long_lived else 'one_repository_object_re-unlocked' if world.one_object else 'fresh_repository_per_command')
    for d in descr:
        rep.count('op=' + d[0])
    rep.count('users=%d' % len(world.users))
    for _, how, _ in world.setup_log:
        rep.count('key=' + how)
    return segments, descr, world


def compare_segments(segments, traces, descr, rep: Report, seed):
    """traces: one model trace per segment (same order)."""
    for (st0, ops, observed), trace in zip(segments, traces):
        for k, obs in enumerate(observed):
            if obs is None:
                continue
            m = trace[k]
            rep.traces_validated += 1
            if (m[0], m[1]) != (obs[0], obs[1]):
                rep.disagreements.append({'what': f'repository state after a command differs: model chunks={m[0]} snaps={m[1]}; '
                                                  f'implementation chunks={obs[0]} snaps={obs[1]} (op {ops[k]})',
                                          'replay': {'seed': seed, 'ops': descr}})
                return
            if m[2] != obs[2]:
                rep.disagreements.append({'what': f'command outcome differs: model ok={m[2]} implementation ok={obs[2]} (op {ops[k]})',
                                          'replay': {'seed': seed, 'ops': descr}})
                return


def run_batch(seeds, scratch, rep: Report, **kw):
    """Run histories for the seeds, then evaluate the model on all their segments in one go."""
    all_segments = []
    for sd in seeds:
        wd = scratch / f'h{sd}'
        wd.mkdir(parents=True, exist_ok=True)
        try:
            segments, descr, world = run_history(sd, wd, rep, **kw)
        finally:
            shutil.rmtree(wd, ignore_errors=True)
        nontrivial = len(descr) >= 3 and len({d[0] for d in descr}) >= 2
        rep.case(('hist', sd, json.dumps(descr)), nontrivial=nontrivial)
        rep.sample({'seed': sd, 'users': world.setup_log, 'ops': descr[:12]})
        all_segments.append((sd, descr, segments))
    flat = [(seg[0], seg[1]) for _, _, segs in all_segments for seg in segs if seg[1]]
    traces, err = model_eval(flat) if flat else ([], '')
    if traces is None:
        rep.disagreements.append({'what': 'the model could not be evaluated: ' + err, 'replay': None})
        return
    it = iter(traces)
    for sd, descr, segs in all_segments:
        live = [seg for seg in segs if seg[1]]
        compare_segments(live, [next(it) for _ in live], descr, rep, sd)
