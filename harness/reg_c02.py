from harness.registry import COMMON_TB
ENTRY = {
    'level': 'proof',
    'technique': 'Coq proof (inductive invariant over an interleaving step relation of snapshot/delete/clean instances with crashes; sequential exec semantics) + source-order facts from the AST + differential correspondence of lifted repository states on random multi-user histories + restore oracle',
    'design_ref': 'DESIGN.md section 4 C02, section 3.4, Appendix B',
    'text': ('C02_step_preserves_J / C02_every_history_safe: for every interleaving of the backend steps (existence check, chunk upload, snapshot '
             'upload, snapshot deletion, chunk deletion) of any number of overlapping snapshot runs by any users, with delete and clean running '
             'alone, and crashes at any point, every snapshot object present refers only to chunk objects present (digest = content under an '
             'injective hash). C02_run_safe: the same for every sequential command list. Source facts (upload order, delete protects chunks of all '
             'other loaded snapshots incl. unreadable ones, clean checks ownership tags) are re-derived from the working tree on every run. Real '
             'histories are executed, lifted and compared with the model after every command; every remaining snapshot is restored and compared.'),
    'note': ('Layer-1 abstraction: a chunk object is a (key family, digest) pair and content = digest (hash injective, MAC names collision free, '
             'AEAD round trip: C04/C05/C14 cover the byte level). Destructive commands do not overlap other commands (README). Lifting uses the '
             'repository\'s own location function. Correspondence is sampled.'),
    'trusted_base': COMMON_TB + ['in-memory backend and fault wrapper of the harness (harness/memstore.py, harness/repo_hist.py)'],
    'assumptions': ['hash injective on chunk contents', 'delete/clean never run concurrently with other commands', 'listing is consistent'],
}
