"""Child side of harness/cli_hist.py: runs `python -m replicat <args>` in THIS fresh interpreter (runpy with
run_name='__main__', so the module's own `if __name__ == '__main__'` block decides the exit status exactly as
for `python -m replicat`), after installing the fault rules of the environment variable VERIF_INJECT.

A rule is {"fn": "replace"|"unlink"|"scandir"|"tempfile", "k": n, "when": "before"|"after", "action": "kill"|<errno name>},
or {"fn": "scandir_iter", "k": n, "after": m, "action": <errno name>}: the n-th directory scan fails in the middle, after it has produced m entries,
or {"fn": "unlink"|"replace"|"read", "path_contains": s, "action": <errno name>}: every such call on a path that contains s fails (a
permanent refusal: a write-protected or unreadable object),
or {"fn": "slow_loop_close", "seconds": s}: the event loop takes s seconds longer between its last iteration and its close (a slow
machine at that instant; worker threads that ask the loop for something in that window are the schedule of interest),
or {"fn": "slow_read", "seconds": s}: every whole-file read inside the repository takes s seconds longer (a slow disk),
or {"fn": "slow_io", "seconds": s}: every object creation inside the repository takes s seconds longer (a slow backend: uploads are
slower than chunking, the pipeline between them fills up),
or {"fn": "slow_submit", "seconds": s}: a worker thread is descheduled for s seconds right before it hands a coroutine to the loop.
Only calls whose (first or second) path argument lies under VERIF_INJECT_ROOT are counted.  "kill" is a real
SIGKILL of this process (no clean-up code, no buffered data flushed); an errno name raises OSError(errno) once.
Nothing here touches /repo: the patches are made on os / tempfile module attributes of the child process."""
import json
import os
import runpy
import signal
import sys


def _install(rules, root):
    import errno
    import tempfile
    root = os.path.realpath(root)
    counters = {}
    for r in rules:
        if r['fn'] == 'slow_loop_close':
            import asyncio.base_events as be
            import time
            orig_close = be.BaseEventLoop.close
            delay = r['seconds']

            def slow_close(self, _orig=orig_close, _delay=delay):
                if not self.is_closed():
                    time.sleep(_delay)
                return _orig(self)
            be.BaseEventLoop.close = slow_close
        if r['fn'] == 'slow_read':
            import pathlib
            import time
            orig_read = pathlib.Path.read_bytes
            pause = r['seconds']

            def slow_read(self, _orig=orig_read, _pause=pause):
                if under(self):
                    time.sleep(_pause)
                return _orig(self)
            pathlib.Path.read_bytes = slow_read
        if r['fn'] == 'slow_submit':
            import asyncio
            import threading
            import time
            orig_submit = asyncio.run_coroutine_threadsafe
            wait = r['seconds']

            def slow_submit(coro, loop, _orig=orig_submit, _wait=wait):
                if threading.current_thread() is not threading.main_thread():
                    time.sleep(_wait)
                return _orig(coro, loop)
            asyncio.run_coroutine_threadsafe = slow_submit
        if r['fn'] == 'slow_io':
            import time
            orig_replace = os.replace
            nap = r['seconds']

            def slow_replace(*a, _orig=orig_replace, _nap=nap, **k):
                if any(under(x) for x in a[:2]):
                    time.sleep(_nap)
                return _orig(*a, **k)
            os.replace = slow_replace
    rules = [r for r in rules if r['fn'] not in ('slow_loop_close', 'slow_read', 'slow_submit', 'slow_io')]

    def under(p):
        try:
            q = os.path.realpath(os.fspath(p))
        except TypeError:
            return False
        return q == root or q.startswith(root + os.sep)

    def fire(fn, when, paths=()):
        idx = counters.get((fn, when), 0)
        counters[(fn, when)] = idx + 1
        for r in rules:
            if r['fn'] == fn and 'path_contains' in r:
                if when == 'before' and any(r['path_contains'] in os.fspath(x) for x in paths if isinstance(x, (str, os.PathLike))):
                    raise OSError(getattr(errno, r['action']), 'injected ' + r['action'])
                continue
            if r['fn'] == fn and r.get('when', 'before') == when and r['k'] == idx:
                if r['action'] == 'kill':
                    os.kill(os.getpid(), signal.SIGKILL)
                raise OSError(getattr(errno, r['action']), 'injected ' + r['action'])

    def wrap(mod, name, fn, nargs=1):
        orig = getattr(mod, name)

        def patched(*a, **k):
            hit = any(under(x) for x in a[:nargs])
            if hit:
                fire(fn, 'before', a[:nargs])
            res = orig(*a, **k)
            if hit:
                fire(fn, 'after')
            return res
        patched.__name__ = name
        setattr(mod, name, patched)

    class BrokenScan:
        """os.scandir's iterator / context manager that fails after `after` entries"""
        def __init__(self, it, after, code):
            self.it, self.left, self.code = it, after, code

        def __iter__(self):
            return self

        def __next__(self):
            if self.left == 0:
                self.left = -1
                raise OSError(self.code, 'injected failure in the middle of a directory scan')
            self.left -= 1
            return next(self.it)

        def __enter__(self):
            return self

        def __exit__(self, *a):
            self.it.close()

        def close(self):
            self.it.close()

    wrap(os, 'replace', 'replace', 2)
    wrap(os, 'rename', 'replace', 2)
    wrap(os, 'unlink', 'unlink')
    wrap(os, 'remove', 'unlink')
    wrap(os, 'scandir', 'scandir')
    counted_scandir = os.scandir
    scans = [0]

    def scandir(*a, **k):
        res = counted_scandir(*a, **k)
        if a and under(a[0]):
            idx = scans[0]
            scans[0] += 1
            for r in rules:
                if r['fn'] == 'scandir_iter' and r['k'] == idx:
                    return BrokenScan(res, r['after'], getattr(errno, r['action']))
        return res
    os.scandir = scandir
    import pathlib
    wrap(pathlib.Path, 'read_bytes', 'read')
    orig_ntf = tempfile.NamedTemporaryFile

    def ntf(*a, **k):
        hit = under(k.get('dir') or '')
        if hit:
            fire('tempfile', 'before')
        res = orig_ntf(*a, **k)
        if hit:
            fire('tempfile', 'after')
        return res
    tempfile.NamedTemporaryFile = ntf


def main():
    spec = os.environ.get('VERIF_INJECT')
    if spec:
        _install(json.loads(spec), os.environ['VERIF_INJECT_ROOT'])
    sys.argv = ['replicat'] + sys.argv[1:]
    runpy.run_module('replicat', run_name='__main__', alter_sys=True)


if __name__ == '__main__':
    main()
