from harness.reg_c02 import ENTRY as _E
ENTRY = dict(_E)
ENTRY['design_ref'] = 'DESIGN.md section 4 C08, section 3.4'
ENTRY['text'] = "C08_delete_effect: a completed delete removes exactly the chunks of the caller's family referenced by the named snapshots and by no remaining family snapshot, and exactly the named snapshot objects; C08_clean_exact / C08_clean_after_any_history: after clean the family's chunk objects are exactly the referenced ones, also from states with orphans left by interrupted commands; C08_confined_*: other families' chunks and snapshots untouched. Real histories with orphans, foreign objects and several families are lifted and compared with the model after every command."
