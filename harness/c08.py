"""C08 - garbage collection is complete and confined."""
from harness import core, repo_hist
from harness.core import Report

RULE = ('cases = multi-user histories incl. interrupted snapshots (orphaned chunks), deletes of own snapshots, refused deletes, cleans, over '
        'several key families plus objects outside the chunk/snapshot areas; after a completed delete: every chunk referenced only by the deleted '
        'snapshots is gone and the named snapshot objects are gone; after a completed clean: the caller family\'s chunk objects == referenced chunks; '
        'chunks/snapshots of other families, config and foreign objects untouched; lifted state compared with Model/Repo.exec after every command; '
        'non-trivial = >= 3 commands of >= 2 kinds')
WEIGHTS = {'snapshot': 4, 'repeat': 1, 'pair': 1, 'delete': 4, 'delete_foreign': 1, 'clean': 3, 'orphans': 2, 'faulty_clean': 1, 'interrupted_delete': 1}
CHECKS = {'exact', 'frame'}
MINE = ('gc_incomplete', 'gc_overreach', 'config_touched', 'exception', 'unknown_object', 'refused_delete_mutated')


def _run(ctx, n, nops, rep, concurrent=None):
    seeds = [ctx.rng.randint(0, 2 ** 31) for _ in range(n)]
    repo_hist.run_batch(seeds, ctx.scratch, rep, nops=nops, weights=WEIGHTS, checks=CHECKS,
                        concurrent=concurrent or ctx.rng.choice([1, 2, 4]), delay=0.001)
    rep.violations[:] = [v for v in rep.violations if v['signature']['kind'] in MINE]


def run(ctx) -> Report:
    rep = Report(rule=RULE)
    _run(ctx, ctx.scale(40, 600), ctx.scale(10, 18), rep)
    return rep


def search(ctx, broken) -> Report:
    rep = Report(rule=RULE)
    _run(ctx, ctx.scale(120, 1500), 16, rep)
    rep.disagreements.clear()
    return rep


def replay(ctx, obj):
    rep = Report(rule=RULE)
    seed = (obj.get('replay') or {}).get('seed')
    if seed is None:
        print('no seed in replay file'); return 0
    repo_hist.run_batch([seed], ctx.scratch, rep, nops=18, weights=WEIGHTS, checks=CHECKS, concurrent=2, delay=0.001)
    for v in rep.violations:
        print('VIOLATION-REPRODUCED', v['what'])
    for d in rep.disagreements:
        print('DISAGREEMENT-REPRODUCED', d['what'])
    return 1 if rep.violations or rep.disagreements else 0
