"""C08 - garbage collection is complete and confined."""
from harness import cli_hist, core, remote_hist, repo_hist
from harness.core import Report

RULE = ('cases = multi-user histories incl. interrupted snapshots (orphaned chunks), deletes of own snapshots, refused deletes, cleans, over '
        'several key families plus objects outside the chunk/snapshot areas; after a completed delete: every chunk referenced only by the deleted '
        'snapshots is gone and the named snapshot objects are gone; after a completed clean: the caller family\'s chunk objects == referenced chunks; '
        'chunks/snapshots of other families, config and foreign objects untouched; lifted state compared with Model/Repo.exec after every command; '
        'non-trivial = >= 3 commands of >= 2 kinds')
WEIGHTS = {'snapshot': 4, 'repeat': 1, 'pair': 1, 'delete': 4, 'delete_foreign': 1, 'clean': 3, 'orphans': 2, 'faulty_clean': 1, 'interrupted_delete': 1, 'observe': 1}
CHECKS = {'exact', 'frame'}
MINE = ('gc_incomplete', 'gc_overreach', 'config_touched', 'exception', 'unknown_object', 'refused_delete_mutated')


def s3_gc_probe(ctx, rep):
    """delete and clean over the S3-compatible adapter with listings spanning several pages (fake service, page size 3):
    objects outside the chunk area, and everything a remaining snapshot needs, must be left alone."""
    import asyncio, contextlib, io
    from pathlib import Path
    from harness import fakes_http as fk
    from replicat.backends.s3c import S3Compatible
    from replicat.repository import Repository
    svc = fk.FakeS3('bkt', page_size=3, piece=64, max_requests=50000)
    wd = Path(ctx.scratch) / 's3gc'
    (wd / 'a').mkdir(parents=True)
    (wd / 'b').mkdir(parents=True)
    (wd / 'a' / 'f').write_bytes(ctx.rng.randbytes(700))
    (wd / 'b' / 'g').write_bytes(ctx.rng.randbytes(300))
    out = {}

    async def go():
        be = S3Compatible('bkt', key_id='AKIDEXAMPLE', access_key='secret', region='us-east-1', host='s3.example.test', scheme='http')
        repo = Repository(be, concurrent=2, quiet=True, cache_directory=None)
        await repo.init(settings={'encryption': None, 'chunking': {'min_length': 32, 'max_length': 64}, 'hashing': {'name': 'blake2b', 'length': 16}})
        await be.upload('notes/readme.txt', b'outside the repository areas')
        await be.upload('zz-archive/old.bin', b'also outside')
        sa = await repo.snapshot(paths=[wd / 'a'])
        sb = await repo.snapshot(paths=[wd / 'b'])
        await be.upload('data/00/11/2233-445566', b'orphan')
        before = dict(svc.objects)
        await repo.delete_snapshots([sb.name], confirm=False)
        await repo.clean()
        out['before'], out['after'], out['sa'], out['sb'] = before, dict(svc.objects), sa, sb
        r2 = Repository(be, concurrent=2, quiet=True, cache_directory=None)
        await r2.unlock()
        (wd / 'out').mkdir()
        try:
            res = await r2.restore(path=wd / 'out')
            t = Path(wd / 'out', *Path(str((wd / 'a' / 'f').resolve())).parts[1:])
            out['restored'] = t.is_file() and t.read_bytes() == (wd / 'a' / 'f').read_bytes()
        except Exception as e:
            out['restored'] = f'{type(e).__name__}: {str(e)[:80]}'
        await be.close()

    with fk.patched_async_client(svc.handler), fk.VirtualSleep(), contextlib.redirect_stdout(io.StringIO()), contextlib.redirect_stderr(io.StringIO()):
        asyncio.run(go())
    rep.case(('s3-gc-probe', len(out['before'])), nontrivial=True)
    rep.count('s3_gc_probe_objects', len(out['before']))
    gone = [k for k in out['before'] if k not in out['after']]
    bad = [k for k in gone if not (k.startswith('data/') or k == out['sb'].location)]
    if bad:
        rep.violations.append({'what': f'delete + clean over S3 (listing in pages of 3) removed objects outside the chunk area or a remaining snapshot: {bad[:3]}',
                               'signature': {'kind': 'gc_overreach', 'backend': 's3c'}, 'replay': {'probe': 's3_gc'}})
    if out['restored'] is not True:
        rep.violations.append({'what': f'after delete + clean over S3 the remaining snapshot does not restore: {out["restored"]}',
                               'signature': {'kind': 'gc_overreach', 'backend': 's3c'}, 'replay': {'probe': 's3_gc'}})
    if 'data/00/11/2233-445566' in out['after']:
        rep.violations.append({'what': 'clean over S3 left an unreferenced chunk object', 'signature': {'kind': 'gc_incomplete', 'backend': 's3c'},
                               'replay': {'probe': 's3_gc'}})


def scale_probe(ctx, rep):
    """More chunks in one delete / one clean than any batch, page or buffer size the code uses (integer constants found in
    replicat/repository.py, at least 2300): a big snapshot and a small one sharing part of it; after deleting the big one the chunk
    objects must be exactly the small one's; garbage of the same size must be collected completely by clean."""
    import ast
    import asyncio, contextlib, io
    from pathlib import Path
    from harness.memstore import AsyncMemBackend
    from replicat.repository import Repository
    consts = [2000]
    try:
        tree = ast.parse((Path(core.REPO) / 'replicat' / 'repository.py').read_text())
        for n_ in ast.walk(tree):
            if isinstance(n_, ast.Assign) and isinstance(n_.value, ast.Constant) and isinstance(n_.value.value, int) and not isinstance(n_.value.value, bool):
                names = [ast.unparse(t) for t in n_.targets]
                if any(x.split('.')[-1].isupper() for x in names) and 50 <= n_.value.value <= 5000:
                    consts.append(n_.value.value)
    except Exception:
        pass
    n = min(2 * max(consts) + 300, 11000)
    wd = Path(ctx.scratch) / 'scale'
    (wd / 'big').mkdir(parents=True)
    (wd / 'small').mkdir(parents=True)
    blocks = [ctx.rng.randbytes(32) for _ in range(n)]
    (wd / 'big' / 'f').write_bytes(b''.join(blocks))
    (wd / 'small' / 'g').write_bytes(b''.join(blocks[:300]) + ctx.rng.randbytes(32 * 20))
    be = AsyncMemBackend()
    out = {}

    async def go():
        r = Repository(be, concurrent=8, quiet=True, cache_directory=None)
        await r.init(settings={'encryption': None, 'chunking': {'min_length': 32, 'max_length': 32}, 'hashing': {'name': 'blake2b', 'length': 16}})
        big = await r.snapshot(paths=[wd / 'big'])
        small = await r.snapshot(paths=[wd / 'small'])
        loc = r._chunk_digest_to_location
        await r.delete_snapshots([big.name], confirm=False)
        out['after_delete'] = {k for k in be.objects if k.startswith('data/')}
        out['small'] = {loc(d) for d in small.chunks}
        # the same amount of garbage: the big snapshot again, its snapshot object lost
        big2 = await r.snapshot(paths=[wd / 'big'])
        be.objects.pop(big2.location)
        await r.clean()
        out['after_clean'] = {k for k in be.objects if k.startswith('data/')}
        out['snapshots'] = [k for k in be.objects if k.startswith('snapshots/')]
    with contextlib.redirect_stdout(io.StringIO()), contextlib.redirect_stderr(io.StringIO()):
        asyncio.run(asyncio.wait_for(go(), 600))
    rep.case(('scale', n), nontrivial=True)
    rep.count('scale_probe_chunks', n)
    import shutil as _sh
    _sh.rmtree(wd, ignore_errors=True)
    for phase, what in (('after_delete', 'delete of a snapshot with %d chunks' % n), ('after_clean', 'clean with %d unreferenced chunks' % n)):
        left = out[phase] - out['small']
        gone = out['small'] - out[phase]
        if left:
            rep.violations.append({'what': f'{what} completed but left {len(left)} chunk(s) that nothing references', 'signature': {'kind': 'gc_incomplete', 'probe': 'scale'},
                                   'replay': {'probe': 'scale', 'chunks': n}})
        if gone:
            rep.violations.append({'what': f'{what} removed {len(gone)} chunk(s) the remaining snapshot references', 'signature': {'kind': 'gc_overreach', 'probe': 'scale'},
                                   'replay': {'probe': 'scale', 'chunks': n}})


CLI_MINE = ('exception', 'hang', 'snapshot_unreadable', 'snapshot_objects', 'snapshot_name', 'gc_incomplete', 'gc_overreach', 'config_touched', 'unknown_object', 'refused_delete_mutated', 'referenced_chunk_missing', 'snapshot_not_listed')


def _run(ctx, n, nops, rep, concurrent=None):
    seeds = [ctx.rng.randint(0, 2 ** 31) for _ in range(n)]
    repo_hist.run_batch(seeds, ctx.scratch, rep, nops=nops, weights=WEIGHTS, checks=CHECKS,
                        concurrent=concurrent or ctx.rng.choice([1, 2, 4]), delay=0.001)
    s3_gc_probe(ctx, rep)
    scale_probe(ctx, rep)
    rep.violations[:] = [v for v in rep.violations if v['signature']['kind'] in MINE]
    # the same property through the tool as a user runs it: fresh `python -m replicat` processes, a repository on disk, real faults
    cli_hist.run_scenarios(ctx, rep, {'plain': ctx.scale(4, 40), 'oserror': ctx.scale(4, 40)}, CLI_MINE)
    cli_hist.refused_removal_probe(ctx, rep, CLI_MINE)
    cli_hist.scan_fault_probe(ctx, rep, CLI_MINE)
    cli_hist.linked_shards_probe(ctx, rep, CLI_MINE)
    # and over the remote adapters (B2 by bucket name and by bucket id, S3-compatible) against in-memory fake services
    remote_hist.remote_probe(ctx, rep, ('exception', 'gc_incomplete', 'gc_overreach', 'referenced_chunk_missing'))
    remote_hist.remote_fault_probe(ctx, rep, ('gc_incomplete',), n=ctx.scale(16, 80), focus='delete')


def run(ctx) -> Report:
    rep = Report(rule=RULE)
    _run(ctx, ctx.scale(40, 600), ctx.scale(10, 18), rep)
    return rep


def search(ctx, broken) -> Report:
    rep = Report(rule=RULE)
    _run(ctx, ctx.scale(120, 1500), 16, rep)
    rep.disagreements.clear()
    return rep


def replay(ctx, obj):
    rc = cli_hist.replay_cli(ctx, obj, CLI_MINE)
    if rc is not None:
        return rc
    if (obj.get('replay') or {}).get('probe') == 'scale':
        rep = Report(rule=RULE)
        scale_probe(ctx, rep)
        for v in rep.violations:
            print('VIOLATION-REPRODUCED', v['what'])
        return 1 if rep.violations else 0
    if (obj.get('replay') or {}).get('probe') == 'remote':
        rep = Report(rule=RULE)
        remote_hist.remote_probe(ctx, rep, ('exception', 'gc_incomplete', 'gc_overreach', 'referenced_chunk_missing'), deployments=[obj['replay']['deployment']])
        for v in rep.violations:
            print('VIOLATION-REPRODUCED', v['what'])
        return 1 if rep.violations else 0
    rep = Report(rule=RULE)
    seed = (obj.get('replay') or {}).get('seed')
    if seed is None:
        print('no seed in replay file'); return 0
    repo_hist.run_batch([seed], ctx.scratch, rep, nops=18, weights=WEIGHTS, checks=CHECKS, concurrent=2, delay=0.001)
    for v in rep.violations:
        print('VIOLATION-REPRODUCED', v['what'])
    for d in rep.disagreements:
        print('DISAGREEMENT-REPRODUCED', d['what'])
    return 1 if rep.violations or rep.disagreements else 0
