"""Independent reader AND writer of the replicat repository format, written from the README
(sections "Basics" incl. the technical details and glossary, "Custom settings", "Repository
settings", "Key settings") with hashlib / cryptography / json / base64 / os only.

NEVER import replicat here: this module is the other side of every C14 comparison.

Where the README's text is silent (most byte-level details live in its diagrams, which are remote
images) the choice made here is marked "README silent, follows code" and listed in design/C14.md.

Scheme implemented
  config      JSON at 'config': {hashing: {name, ...}, chunking: {...}, encryption?: {cipher: {name, ...}}}
  key file    JSON {kdf: {name: scrypt, n, r, p, length}, kdf_params: salt, private: Encrypt(JSON(private), UserKey)}
              UserKey = SlowKdf(Password, UserKdfParams);  private = {shared_key, shared_kdf, shared_kdf_params,
              mac, mac_params, chunker_params}
  bytes       a byte string inside JSON is {"!b": <standard base64>}
  Encrypt     nonce || AEAD(key).encrypt(nonce, data, no associated data)        (README silent, follows code)
  Mac(x)      BLAKE2b(x, key=mac_params, digest_size=mac.length)                (keyed BLAKE2b, follows code)
  FastKdf     BLAKE2b(context, key=shared_key, salt=shared_kdf_params, digest_size=length)   (follows code)
  chunk       digest = Hash(plaintext); name = Mac(digest), tag = Mac(Mac(digest)) (unencrypted: both = digest)
              location data/<tag[:2]>/<tag[2:4]>/<tag[4:]>-<name>; body Encrypt(plaintext, FastKdf(SharedKey, params, digest))
  snapshot    object = JSON {chunks, data}; encrypted: data = Encrypt(JSON(data), UserKey),
              chunks = Encrypt(JSON(table), FastKdf(SharedKey, params, Hash(encrypted data)));
              name = Hash(object), tag = Mac(Hash(object)) (unencrypted: = name);
              location snapshots/<tag[:2]>/<tag[2:]>-<name>
  data        {utc_timestamp, files: [{path, chunks: [{range: [a, b], index, counter}], digest, metadata}], note?}
              a file is the concatenation, in counter order, of table[index] plaintext [a:b]
"""
import base64
import binascii
import hashlib
import json
import re

from cryptography.exceptions import InvalidTag
from cryptography.hazmat.primitives.ciphers import aead


class FormatError(Exception):
    pass


# --------------------------------------------------------------------------- JSON with tagged byte strings
def _hook(obj):
    if len(obj) == 1 and '!b' in obj:
        v = obj['!b']
        if not isinstance(v, str):
            raise FormatError('"!b" must carry a string')
        try:
            return base64.b64decode(v.encode('ascii'), validate=True)      # strict: standard alphabet only
        except (binascii.Error, UnicodeEncodeError) as e:
            raise FormatError(f'not standard base64: {v[:40]!r}') from e
    return obj


def loads(data):
    try:
        return json.loads(data, object_hook=_hook)
    except (ValueError, UnicodeDecodeError) as e:
        raise FormatError(f'not JSON: {e}') from e


def loads_raw(data):
    """the plain JSON tree, hints left in place"""
    return json.loads(data)


def dumps(obj, style='compact'):
    def default(o):
        if isinstance(o, (bytes, bytearray)):
            return {'!b': base64.b64encode(bytes(o)).decode('ascii')}
        raise TypeError(type(o))
    if style == 'compact':
        return json.dumps(obj, separators=(',', ':'), default=default).encode('ascii')
    if style == 'spaced':
        return json.dumps(obj, default=default).encode('ascii')
    if style == 'utf8':
        # ordinary RFC 8259 interchange form: UTF-8, characters outside ASCII not escaped (the default of
        # most JSON libraries).  README silent on the text encoding of stored JSON: RFC 8259 UTF-8 assumed.
        return json.dumps(obj, ensure_ascii=False, separators=(',', ':'), default=default).encode('utf-8')
    return json.dumps(obj, indent=1, sort_keys=True, default=default).encode('ascii')


# --------------------------------------------------------------------------- primitives
def make_hash(cfg):
    name = cfg['name']
    if name == 'blake2b':
        n = cfg.get('length', 64)
        return lambda d: hashlib.blake2b(d, digest_size=n).digest()
    if name == 'sha2':
        f = getattr(hashlib, 'sha%d' % cfg.get('bits', 512))
        return lambda d: f(d).digest()
    if name == 'sha3':
        f = getattr(hashlib, 'sha3_%d' % cfg.get('bits', 512))
        return lambda d: f(d).digest()
    raise FormatError(f'unknown hash {name}')


class Cipher:
    def __init__(self, cfg):
        name = cfg['name']
        if name == 'aes_gcm':
            self.cls, self.key_bytes, self.nonce_bytes = aead.AESGCM, cfg.get('key_bits', 256) // 8, cfg.get('nonce_bits', 96) // 8
        elif name == 'chacha20_poly1305':
            self.cls, self.key_bytes, self.nonce_bytes = aead.ChaCha20Poly1305, 32, 12
        else:
            raise FormatError(f'unknown cipher {name}')

    def encrypt(self, data, key, nonce):
        assert len(nonce) == self.nonce_bytes
        return nonce + self.cls(key).encrypt(nonce, data, None)

    def decrypt(self, data, key):
        n = self.nonce_bytes
        try:
            return self.cls(key).decrypt(data[:n], data[n:], None)
        except InvalidTag as e:
            raise FormatError('authenticated decryption failed') from e


def slow_kdf(cfg, password, salt):
    if cfg['name'] != 'scrypt':
        raise FormatError(f'unknown user KDF {cfg["name"]}')
    return hashlib.scrypt(password, salt=salt, n=cfg.get('n', 1 << 20), r=cfg.get('r', 8), p=cfg.get('p', 1), dklen=cfg['length'],
                          maxmem=2 ** 31 - 1)


def fast_kdf(cfg, ikm, salt, context):
    if cfg['name'] != 'blake2b':
        raise FormatError(f'unknown shared KDF {cfg["name"]}')
    return hashlib.blake2b(context, digest_size=cfg.get('length', 64), key=ikm, salt=salt).digest()


def keyed_mac(cfg, key, msg):
    if cfg['name'] != 'blake2b':
        raise FormatError(f'unknown MAC {cfg["name"]}')
    return hashlib.blake2b(msg, digest_size=cfg.get('length', 64), key=key).digest()


CHUNK_RE = re.compile(r'^data/([0-9a-f]{2})/([0-9a-f]{2})/([0-9a-f]*)-([0-9a-f]+)$')
SNAPSHOT_RE = re.compile(r'^snapshots/([0-9a-f]{2})/([0-9a-f]*)-([0-9a-f]+)$')


def chunk_path(name, tag):
    return f'data/{tag[:2]}/{tag[2:4]}/{tag[4:]}-{name}'


def snapshot_path(name, tag):
    return f'snapshots/{tag[:2]}/{tag[2:]}-{name}'


class Keys:
    """what a key file + password (or nothing, for an unencrypted repository) gives"""

    def __init__(self, config, key_bytes=None, password=None):
        self.config = config
        self.hash = make_hash(config['hashing'])
        enc = config.get('encryption')
        self.encrypted = enc is not None
        self.cipher = Cipher(enc['cipher']) if self.encrypted else None
        self.key = self.userkey = self.private = None
        if self.encrypted:
            self.key = key = loads(key_bytes)
            if not isinstance(key, dict) or set(key) != {'kdf', 'kdf_params', 'private'}:
                raise FormatError(f'key file fields: {sorted(key) if isinstance(key, dict) else type(key)}')
            if not isinstance(key['kdf_params'], bytes) or not isinstance(key['private'], bytes):
                raise FormatError('kdf_params / private must be byte strings')
            self.userkey = slow_kdf(key['kdf'], password, key['kdf_params'])
            if len(self.userkey) != self.cipher.key_bytes:
                raise FormatError('user key length differs from the cipher key length')
            self.private = loads(self.cipher.decrypt(key['private'], self.userkey))
            need = {'shared_key', 'shared_kdf', 'shared_kdf_params', 'mac', 'mac_params', 'chunker_params'}
            if set(self.private) != need:
                raise FormatError(f'private section fields: {sorted(self.private)}')

    def mac(self, msg):
        return keyed_mac(self.private['mac'], self.private['mac_params'], msg)

    def subkey(self, context):
        return fast_kdf(self.private['shared_kdf'], self.private['shared_key'], self.private['shared_kdf_params'], context)

    def chunk_parts(self, digest):
        if self.encrypted:
            m = self.mac(digest)
            return m.hex(), self.mac(m).hex()
        return digest.hex(), digest.hex()

    def snapshot_parts(self, digest):
        return digest.hex(), (self.mac(digest).hex() if self.encrypted else digest.hex())


# --------------------------------------------------------------------------- reader
class Reader:
    def __init__(self, objects, key_bytes=None, password=None):
        self.objects = objects
        if 'config' not in objects:
            raise FormatError('no config object')
        self.config = loads(objects['config'])
        for k in ('hashing', 'chunking'):
            if k not in self.config:
                raise FormatError(f'config lacks {k}')
        self.keys = Keys(self.config, key_bytes, password)
        self._plain = {}

    def snapshot_names(self):
        return sorted(n for n in self.objects if n.startswith('snapshots/'))

    def chunk_names(self):
        return sorted(n for n in self.objects if n.startswith('data/'))

    def check_chunk_name(self, path):
        """(name, tag) of a chunk object whose tag verifies"""
        m = CHUNK_RE.match(path)
        if not m:
            raise FormatError(f'chunk object name does not have the documented shape: {path}')
        tag, name = m.group(1) + m.group(2) + m.group(3), m.group(4)
        want = self.keys.mac(bytes.fromhex(name)).hex() if self.keys.encrypted else name
        if tag != want:
            raise FormatError(f'chunk tag is not Mac(name): {path}')
        return name, tag

    def read_snapshot(self, path):
        k = self.keys
        m = SNAPSHOT_RE.match(path)
        if not m:
            raise FormatError(f'snapshot object name does not have the documented shape: {path}')
        tag, name = m.group(1) + m.group(2), m.group(3)
        blob = self.objects[path]
        if k.hash(blob).hex() != name:
            raise FormatError('snapshot name is not the hash of the object')
        if tag != k.snapshot_parts(bytes.fromhex(name))[1]:
            raise FormatError('snapshot tag is not Mac(Hash(object))')
        body = loads(blob)
        if not isinstance(body, dict) or set(body) != {'chunks', 'data'}:
            raise FormatError(f'snapshot object fields: {sorted(body) if isinstance(body, dict) else type(body)}')
        if k.encrypted:
            if not isinstance(body['chunks'], bytes) or not isinstance(body['data'], bytes):
                raise FormatError('encrypted snapshot fields must be byte strings')
            data = loads(k.cipher.decrypt(body['data'], k.userkey))
            table = loads(k.cipher.decrypt(body['chunks'], k.subkey(k.hash(body['data']))))
        else:
            data, table = body['data'], body['chunks']
        if not isinstance(table, list) or not all(isinstance(d, bytes) for d in table):
            raise FormatError('chunk table must be a list of byte strings')
        if len(set(table)) != len(table):
            raise FormatError('chunk table has repeated digests')
        return {'name': name, 'tag': tag, 'table': table, 'data': data}

    def chunk_plaintext(self, digest):
        if digest not in self._plain:
            k = self.keys
            path = chunk_path(*k.chunk_parts(digest))
            if path not in self.objects:
                raise FormatError(f'chunk object missing at the documented location {path[:24]}...')
            blob = self.objects[path]
            plain = k.cipher.decrypt(blob, k.subkey(digest)) if k.encrypted else blob
            if k.hash(plain) != digest:
                raise FormatError('chunk plaintext does not hash to its digest')
            self._plain[digest] = plain
        return self._plain[digest]

    def file_bytes(self, entry, table):
        """content of one file entry + the (counter, index, start, end, chunk length) list in counter order"""
        refs = entry['chunks']
        out, lay = [], []
        for r in sorted(refs, key=lambda r: r['counter']):
            if set(r) != {'range', 'index', 'counter'}:
                raise FormatError(f'chunk reference fields: {sorted(r)}')
            a, b = r['range']
            if not (isinstance(r['index'], int) and 0 <= r['index'] < len(table)):
                raise FormatError('chunk reference index outside the table')
            plain = self.chunk_plaintext(table[r['index']])
            if not (0 <= a <= b <= len(plain)):
                raise FormatError(f'range {[a, b]} outside the chunk of {len(plain)} bytes')
            out.append(plain[a:b])
            lay.append((r['counter'], r['index'], a, b, len(plain)))
        return b''.join(out), lay


# --------------------------------------------------------------------------- writer
class Writer:
    """Produces a repository (dict name -> bytes) from files, with its own chunking and layout."""

    def __init__(self, rng, config, password=None, user_kdf=None, mac_length=64, style='compact'):
        self.rng, self.style = rng, style
        self.config = config
        self.objects = {'config': dumps(config, style)}
        self.key_bytes = None
        enc = config.get('encryption')
        if enc is not None:
            cipher = Cipher(enc['cipher'])
            kdf = dict(user_kdf or {'name': 'scrypt', 'n': 4, 'r': 1, 'p': 1}, length=cipher.key_bytes)
            salt = rng.randbytes(cipher.key_bytes)
            private = {
                'shared_key': rng.randbytes(cipher.key_bytes),
                'shared_kdf': {'name': 'blake2b', 'length': cipher.key_bytes},
                'shared_kdf_params': rng.randbytes(16),
                'mac': {'name': 'blake2b', 'length': mac_length},
                'mac_params': rng.randbytes(64),
                'chunker_params': rng.randbytes(16),
            }
            userkey = slow_kdf(kdf, password, salt)
            key = {'kdf': kdf, 'kdf_params': salt,
                   'private': cipher.encrypt(dumps(private, style), userkey, rng.randbytes(cipher.nonce_bytes))}
            self.key_bytes = dumps(key, style)
        self.keys = Keys(config, self.key_bytes, password)

    def _enc(self, data, key):
        c = self.keys.cipher
        return c.encrypt(data, key, self.rng.randbytes(c.nonce_bytes))

    def put_chunk(self, plain):
        k = self.keys
        digest = k.hash(plain)
        path = chunk_path(*k.chunk_parts(digest))
        if path not in self.objects:
            self.objects[path] = self._enc(plain, k.subkey(digest)) if k.encrypted else plain
        return digest

    def put_snapshot(self, table, data):
        k = self.keys
        if k.encrypted:
            data_ct = self._enc(dumps(data, self.style), k.userkey)
            table_ct = self._enc(dumps(table, self.style), k.subkey(k.hash(data_ct)))
            blob = dumps({'chunks': table_ct, 'data': data_ct}, self.style)
        else:
            blob = dumps({'chunks': table, 'data': data}, self.style)
        name, tag = k.snapshot_parts(k.hash(blob))
        path = snapshot_path(name, tag)
        self.objects[path] = blob
        return path
