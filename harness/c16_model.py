"""C16 model side: every captured request is recomputed by Model/SigV4.v (the code's path, instantiated with
tagging hash functions), sent through the model of httpx (wire_of) and through the independent specification
(Model/SigV4Spec.v), by vm_compute; the results are compared with the bytes captured at the transport and with the
strings the module hashed and signed."""
from __future__ import annotations

import hashlib

from harness import core

CODE_HEADERS = {b'content-length', b'host', b'x-amz-content-sha256', b'x-amz-date', b'authorization'}
EMPTY = hashlib.sha256(b'').hexdigest()


def bs(data: bytes):
    return '(bs [' + ';'.join(str(c) for c in data) + ']%N)' if data else '[]'


def op_term(op, nth, token=None):
    kind = op[0]
    name = op[1].encode()
    if kind == 'exists':
        return f'OpExists {bs(name)}', None
    if kind == 'download':
        return f'OpDownload {bs(name)}', None
    if kind == 'download_stream':
        return f'OpDownloadStream {bs(name)}', None
    if kind == 'delete':
        return f'OpDelete {bs(name)}', None
    if kind in ('upload', 'upload_stream'):
        data = bytes.fromhex(op[2])
        # the model uses the data only through its digest and its length: feed a same-length placeholder, and the digest
        return ('PUT', name, len(data), hashlib.sha256(data).hexdigest().encode(), kind), None
    if kind == 'list_files':
        tok = None if token is None else token.encode()
        return f'OpList {"None" if tok is None else "(Some " + bs(tok) + ")"} {bs(op[1].encode())}', None
    raise ValueError(kind)


PRELUDE = '''From Coq Require Import List NArith Bool String.
From Coq Require Import Strings.Byte.
From Replicat Require Import Model.SigV4Prims Model.SigV4 Model.SigV4Spec Proofs.SigV4Main Proofs.SigV4Ops.
Import ListNotations.
Definition H (x : bytes) : bytes := match x with [] => b "%s" | _ => tag_hash x end.
Definition show (host region key secret url bucket : bytes) (extra : list (bytes * bytes)) (guard : bool)
                (req : bytes * bytes * list (bytes * bytes)) :=
  let w := wire_of url extra req in
  (guard, (ns (w_target w), map (fun h => (ns (fst h), ns (snd h))) (w_headers w)),
   (ns (canonical_request_spec w signed3),
    bytes_eqb (authorization_on_wire w) (authorization_spec H tag_hmac (fun x => x) w signed3 key secret region (b "s3")))).
Definition run_op host region key secret url bucket extra o ymd hms :=
  show host region key secret url bucket extra (op_guard host bucket o ymd hms extra)
       (op_request H tag_hmac (fun x => x) host region key secret url bucket o ymd hms).
Definition run_put host region key secret url bucket extra name (n : N) digest (stream : bool) ymd hms :=
  show host region key secret url bucket extra (op_guard host bucket (OpExists name) ymd hms extra)
       (if stream then op_put_object_stream H tag_hmac (fun x => x) host region key secret url bucket ymd hms name n digest
        else op_put_object H tag_hmac (fun x => x) host region key secret url bucket ymd hms name (repeat x00 (N.to_nat n)) digest).
''' % EMPTY


def case_text(item):
    sc, rec = item['sc'], item['rec']
    cfg = sc['cfg']
    host = item['host'].encode()
    url = (cfg['scheme'] + '://').encode() + host
    extra = [(k, v) for k, v in rec['headers'] if k.lower() not in CODE_HEADERS]
    extra_t = '[' + '; '.join(f'({bs(k)}, {bs(v)})' for k, v in extra) + ']'
    ymd, hms = item['stamp'][:8].encode(), item['stamp'][9:15].encode()
    common = f'{bs(host)} {bs(cfg["region"].encode())} {bs(cfg["key_id"].encode())} {bs(cfg["access_key"].encode())} {bs(url)} {bs(cfg["bucket"].encode())} {extra_t}'
    t, _ = op_term(rec['op'], rec['nth'], rec.get('token'))
    if isinstance(t, tuple):
        _, name, n, digest, kind = t
        return (f'Eval vm_compute in run_put {common} {bs(name)} {n}%N {bs(digest)} {"true" if kind == "upload_stream" else "false"} '
                f'{bs(ymd)} {bs(hms)}.')
    return f'Eval vm_compute in run_op {common} ({t}) {bs(ymd)} {bs(hms)}.'


def compare(queue, rep, per_file=25):
    if not queue:
        return
    jobs = []
    for i in range(0, len(queue), per_file):
        jobs.append((f'c16_{i // per_file}', PRELUDE + '\n'.join(case_text(it) for it in queue[i:i + per_file]) + '\n'))
    res = core.coq_eval_files(jobs)
    vals = []
    for name, _ in jobs:
        rc, text = res[name]
        if rc != 0:
            rep.disagreements.append({'what': 'the model could not be evaluated: ' + text[-1200:], 'replay': None})
            return
        vals += [core.parse_coq_term(v) for v in core.parse_coq_values(text)]
    if len(vals) != len(queue):
        rep.disagreements.append({'what': f'model produced {len(vals)} results for {len(queue)} cases', 'replay': None})
        return
    for item, val in zip(queue, vals):
        rep.traces_validated += 1
        guard, (target, headers), (creq_spec, auth_ok) = val
        rec = item['rec']
        creq_real, sts_real = item['canon']
        target = bytes(target)
        headers = [(bytes(k), bytes(v)) for k, v in headers]
        problems = []
        if not guard:
            problems.append('the theorem\'s guard is false for a request of the main generator')
        if target != rec['target']:
            problems.append(f'request target: model {target!r} wire {rec["target"]!r}')
        m = dict((k.lower(), v) for k, v in headers)
        r = dict((k.lower(), v) for k, v in rec['headers'])
        if sorted(k.lower() for k, _ in headers) != sorted(k.lower() for k, _ in rec['headers']):
            problems.append(f'header names: model {sorted(m)} wire {sorted(r)}')
        else:
            for k in m:
                if k != b'authorization' and m[k] != r[k]:
                    problems.append(f'header {k!r}: model {m[k]!r} wire {r[k]!r}')
            am, ar = m.get(b'authorization', b''), r.get(b'authorization', b'')
            cut = ar.find(b'Signature=')
            if cut < 0 or am[:cut + 10] != ar[:cut + 10]:
                problems.append(f'Authorization up to the signature: model {am[:cut + 10]!r} wire {ar[:cut + 10]!r}')
            # the tagged signature carries the model's string to sign and canonical request
            i = am.find(b',AWS4-HMAC-SHA256\n')
            sts_model = am[i + 1:-1] if i >= 0 else b''
            parts = sts_model.split(b'\n', 3)
            if len(parts) != 4 or not parts[3].startswith(b'H(') or not parts[3].endswith(b')'):
                problems.append('could not read the string to sign out of the model result')
            else:
                creq_model = parts[3][2:-1]
                if creq_model != creq_real:
                    problems.append(f'canonical request: model {creq_model!r} module {creq_real!r}')
                real_parts = (sts_real or b'').split(b'\n', 3)
                if parts[:3] != real_parts[:3]:
                    problems.append(f'string to sign (first three lines): model {parts[:3]!r} module {real_parts[:3]!r}')
                elif len(real_parts) != 4 or real_parts[3] != hashlib.sha256(creq_real or b'').hexdigest().encode():
                    problems.append('the last line of the module\'s string to sign is not the SHA-256 of its canonical request')
            # key derivation chain as the model has it, recomputed with real HMACs, must give the signature on the wire
        if bytes(creq_spec) != creq_real:
            problems.append(f'canonical request derived from the wire by the specification: {bytes(creq_spec)!r} module {creq_real!r}')
        if not auth_ok:
            problems.append('model: authorization on the wire differs from authorization_spec')
        if problems:
            rep.disagreements.append({'what': '; '.join(problems)[:1500], 'replay': item['sc']})
