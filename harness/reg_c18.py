from harness.registry import COMMON_TB

ENTRY = {
    'level': 'proof',
    'technique': ('Coq proof (cache = arbitrary partial map path -> bytes; generic in bytes/digest/decoder under "hash injective", plus a closed '
                  'symbolic instance with histories of operations by several clients) + source fact translated from _download_snapshot_threadsafe '
                  'by a small flow analysis + differential runs of command histories under cache variants against the cache-less client'),
    'design_ref': 'DESIGN.md section 4 C18; design/C18.md',
    'text': ('Theorems C18_load_transparent (for every cache state the load of the listed snapshots equals the cache-less load), C18_fetch_sound / '
             'C18_fetch_monotone (no assumption on the backend object), C18_only_listed_read (entries under unlisted paths are inert), '
             'C18_cache_holds_verified, C18_histories_generic and the closed C18_histories (any number of clients and keys, arbitrary initial cache '
             'contents, shared caches, entries rewritten/removed/truncated at any point: observations and final store equal the cache-less run). '
             'They consume the source fact "the digest comparison covers bytes read from the cache" (true only after the fix: commit in /repo). '
             'Enumerated: random command histories by 4 clients (owner/shared/independent key, second repository) x 11 cache variants (separate, warm, '
             'shared by all keys and both repositories, every entry removed/empty/1 byte/half/len-1/other snapshot\'s bytes/garbage/mixed before every '
             'command) compared observation by observation with the cache-less run, and with the model (outcome, visible snapshots, state of every entry); '
             'histories with a planted snapshot object that does not hash to its name (all clients must fail alike); a crowded cache sub-directory '
             'loaded cold by 4 threads whose cache writes are forced to overlap.'),
    'note': ('The cache model covers the snapshot cache (the only cache replicat has). Crashes of the process while it writes an entry are represented by '
             'their result (any prefix of the contents); a cache directory that cannot be read/written at all (permissions, a directory in place of '
             'a file) is outside the statement. Histories are sampled.'),
    'trusted_base': COMMON_TB + ['in-memory Backend /verif/harness/membackend.py', 'fake clock substituted for replicat.repository.datetime (so that runs of one history are comparable)'],
    'assumptions': ['hash function injective (generic theorems: explicit premise hash_inj; symbolic instance: free constructors)',
                    'backend objects at snapshot paths are intact and the listing is consistent while a command runs (damage to the backend is C04)'],
}
