"""Registry fragment for C11 (see harness/registry.py)."""
from harness.registry import COMMON_TB

ENTRY = {
    'level': 'proof',
    'technique': ('Coq proofs by induction over the reference chunk sequence (generic in the hash function, lifted to the real driver loop '
                  'through C10 head_prefix) + concrete-key witnesses by vm_compute + differential correspondence model-vs-recompiled-C++ on '
                  'pairs of related streams + model-free oracles incl. a probabilistic re-synchronisation-distance bound'),
    'design_ref': 'DESIGN.md section 4 C11, section 3.1; design/C11.md',
    'text': ('PROVED for every hash function / key, all valid (min,max), all streams, segmentations and memory behind the buffers: '
             'C11_suffix_determinism (two streams prefix1+S, prefix2+S with a common boundary in S produce, from there on, the same chunks - '
             'the reference sequence of the rest of S - up to tails starting in the last 2*max bytes), C11_head_from_boundary, '
             'C11_prefix_determinism (chunks starting at least align4(max) before an edit are shared), C11_boundary_aligned (boundaries are '
             'multiples of 4, hence the aligned-prefix condition), C11_scan_first_max (the cut is the FIRST position of the maximal hash), '
             'C11_ref_cut_dominant / C11_dominant_cut / C11_dominant_boundary / C11_resync_at_dominant (a position whose hash is the strict '
             'maximum within max on both sides ends every chunk that has it in reach, whatever the prefixes: the re-synchronisation mechanism), '
             'C11_padding_aligns / C11_stream_common_suffix (files start at multiples of the alignment in the snapshot stream; equal trailing '
             'files form a common suffix behind aligned prefixes), C11_keyf_k1_xor (k1 is an xor mask), C11_key_matters (existential, '
             'vm_compute: keys differing in k0 only / k1 only cut an explicit stream differently). All print Closed under the global context. '
             'NOT a theorem: the re-synchronisation DISTANCE. It is probabilistic; the harness measures it on high-entropy data (max >= 64, '
             'min <= max/16) and checks it against D = 256*max, a bound derived in design/C11.md under the idealisation of independent uniform '
             'window hashes (failure < 1e-15 per case) - this half of the property is exploration support only, as is "different keys give '
             'different boundaries" beyond the existential theorem (checked on independently drawn keys, k0-only and top-bit k1 differences).'),
    'note': ('Tie: Gen/SrcFacts (alignment = 4), Gen/StreamGen via C01Tie.tie_padding (padding expression of _stream_files, yielded as zero '
             'bytes); both streams of every model-sized case are chunked by the Gallina model (vm_compute) and by the Python adapter over '
             'src/adapters.cpp recompiled from the working tree under random segmentations; Model/Clmul.keyf = compiled key() = the Python keyf of '
             'the oracles on sampled windows; Resync.dominantb = the Python dominance test; real snapshots [a,F], [b,F] through Repository.snapshot; sessions in which one or several adapter objects (and RepositoryProps around them) chunk several (stream, key) jobs sequentially / interleaved / started at different times under a random advance schedule, each compared with a new adapter object run alone and with the model; one-block hand-overs larger than every size constant of the source. '
             'Keys that differ only in low-order bits of k1 give identical boundaries with overwhelming probability (consequence of '
             'C11_keyf_k1_xor); with min close to max the cut is forced and no key matters - both are outside what is claimed.'),
    'trusted_base': COMMON_TB + ['pybind11 stand-in /verif/native/shim and ctypes front /verif/native/pyshim (B3)',
                                 'Python re-implementation of keyf / dominance in harness/c11.py (cross-checked against Coq and the compiled key() on every run)'],
    'assumptions': ['size_t arithmetic does not overflow (2*max_length)',
                    'for the distance bound only: window hashes of high-entropy data behave like independent uniform 64-bit values',
                    'the chunker parameters of a repository (key, min, max) are the same for the snapshots being compared'],
}
