"""C19 - option precedence CLI > environment > profile > default section > built-in, same coercion whichever
source, mutually exclusive options rejected.  B2: replicat.__main__.main() executed in a fresh interpreter per
case (harness/c19_driver.py records the handler arguments and the backend constructor call) for every option x
every subset of its sources x commands, for local, s3c and a custom backend on the namespace-package path,
compared with the Gallina model (coq/Model/Options.v).  C: model-free oracles (the winner's single-source value,
same string through every source, exclusive pairs).  DESIGN.md C19."""
from __future__ import annotations

import itertools
import json
import os
import subprocess
from concurrent.futures import ThreadPoolExecutor
from pathlib import Path

from harness import core
from harness.core import Report

DRIVER = Path(__file__).resolve().parent / 'c19_driver.py'
SOURCES = ['cli', 'env', 'prof', 'dflt']

PC_SOURCE = '''from .base import Backend


class ProudCloud(Backend, short_name='PROUDCLOUD'):
    def __init__(self, connection_string, *, account_id, secret, port=9_876, legacy=False, mode='fast', timeout=2.5, retries=3):
        raise RuntimeError('the harness records constructor calls instead')

    exists = upload = upload_stream = download = download_stream = list_files = delete = None


Client = ProudCloud
'''
# a custom backend derived from another custom backend: its environment variables carry ITS OWN class name
# (README: <SHORT_NAME>_<OPTION>, the short name being the class name unless the class declares one itself)
PCL_SOURCE = '''from .pc import ProudCloud


class ProudCloudLegacy(ProudCloud):
    def __init__(self, connection_string, *, account_id, secret, port=8_765, region='eu-1'):
        raise RuntimeError('the harness records constructor calls instead')


Client = ProudCloudLegacy
'''
PCL_PARAMS = [('account_id', None), ('secret', None), ('port', 8765), ('region', 'eu-1')]
PC_PARAMS = [('account_id', None), ('secret', None), ('port', 9876), ('legacy', False), ('mode', 'fast'), ('timeout', 2.5), ('retries', 3)]

COMMANDS = [('init', []), ('add-key', []), ('list-snapshots', []), ('ls', []), ('list-files', []), ('lf', []),
            ('snapshot', ['/some/path']), ('restore', []), ('delete', ['snapshot-name']), ('clean', []),
            ('benchmark', ['aes_gcm']), ('upload-objects', ['/some/file']), ('download-objects', []),
            ('list-objects', []), ('delete-objects', ['object-name'])]


# --------------------------------------------------------------------------- tables
# The documented options (README: command line interface, configuration file, backends).  The oracles and the case
# generator use THIS table; the model side uses the table extracted from the working tree (Gen/C19Tables.v); the two
# are compared on every run.
def _row(name, dest, flags, cli, file, env=None, envvar=None):
    return {'name': name, 'dest': dest, 'flags': flags, 'cli': cli, 'env': env, 'envvar': envvar, 'file': file, 'backend_option': False}


DOC_GENERAL = [
    _row('repository', 'repository', ['-r', '--repository'], 'CoRepo', 'CoRepo', 'CoRepo', 'REPLICAT_REPOSITORY'),
    _row('concurrent', 'concurrent', ['-c', '--concurrent'], 'CoNatCli', 'CoNatFile'),
    _row('hide-progress', 'quiet', ['-q', '--hide-progress'], 'CoStoreTrue', 'CoBoolFile'),
    _row('cache-directory', 'cache_directory', ['--cache-directory'], 'CoPath', 'CoPath'),
    _row('no-cache', 'cache_directory', ['--no-cache'], 'CoConstNone', 'CoNoCacheFile'),
    _row('password', 'password', ['-p', '--password'], 'CoBytes', 'CoBytes', 'CoBytes', 'REPLICAT_PASSWORD'),
    _row('password-file', 'password', ['-P', '--password-file'], 'CoReadFile', 'CoReadFile'),
    _row('key', 'key', [], None, 'CoBytes'),
    _row('key-file', 'key', ['-K', '--key-file'], 'CoReadFile', 'CoReadFile'),
    _row('log-level', 'log_level', [], None, 'CoLogLevel'),
]
DOC_EXCL_FILE = [('key', 'key-file'), ('password', 'password-file')]
DOC_EXCL_CLI = [('no-cache', 'cache-directory'), ('password', 'password-file')]
DOC_BACKENDS = {
    'local': {'short': 'Local', 'params': []},
    's3c': {'short': 'S3C', 'params': [('key_id', None), ('access_key', None), ('region', None), ('host', None), ('scheme', 'https')]},
    # README, Backends: S3_KEY_ID, S3_ACCESS_KEY, S3_REGION - the class's own name, although S3 derives from the S3C client
    's3': {'short': 'S3', 'params': [('key_id', None), ('access_key', None), ('region', None)]},
}


def extracted_tables():
    """The same tables read off the source by the extractor that writes coq/Gen/C19Tables.v."""
    from translate import pyast, units_c19
    cli = pyast.module('replicat/utils/cli.py')
    cfg = pyast.module('replicat/utils/config.py')
    args, groups = units_c19.cli_arguments(cli)
    rows, excl_file, env, _ = units_c19.config_rows(cfg)
    by_name = {a['name']: a for a in args}
    general = []
    for r in rows:
        a = by_name.get(r['name'])
        e = [x for x in env if x['dest'] == r['dest'] and r['name'] == r['dest']]
        general.append(_row(r['name'], r['dest'], a['flags'] if a and a['co'] else [], a['co'] if a and a['co'] else None, r['co'],
                            e[0]['co'] if e else None, e[0]['var'] if e else None))
    names = {r['name'] for r in rows}
    excl_cli = [tuple(m) for m in groups.values() if len(m) == 2 and set(m) <= names]
    backends = {}
    for mod, short, params in units_c19.backend_specs():
        ps = []
        for pn, d in params:
            ps.append((pn, None if d == 'None' else d[len('(Some (VStr "'):-3] if d.startswith('(Some (VStr "') else d))
        backends[mod] = {'short': short, 'params': ps}
    return general, [tuple(x) for x in excl_file], excl_cli, backends


def compare_tables(rep):
    try:
        general, excl_file, excl_cli, backends = extracted_tables()
    except Exception as e:  # noqa - the extractor fails closed
        rep.disagreements.append({'what': f'the option tables cannot be extracted from the working tree: {type(e).__name__}: {e}', 'replay': None})
        return
    diffs = []
    if general != DOC_GENERAL:
        doc = {r['name']: r for r in DOC_GENERAL}
        ext = {r['name']: r for r in general}
        for n in sorted(set(doc) | set(ext)):
            if doc.get(n) != ext.get(n):
                diffs.append(f'{n}: documented {doc.get(n)} extracted {ext.get(n)}')
    if sorted(excl_file) != sorted(DOC_EXCL_FILE) or sorted(excl_cli) != sorted(DOC_EXCL_CLI):
        diffs.append(f'exclusive pairs: documented {DOC_EXCL_FILE} / {DOC_EXCL_CLI} extracted {excl_file} / {excl_cli}')
    for b, spec in DOC_BACKENDS.items():
        if backends.get(b) != spec:
            diffs.append(f'backend {b}: documented {spec} extracted {backends.get(b)}')
    if diffs:
        rep.disagreements.append({'what': 'the option tables extracted from the working tree differ from the documented ones: ' + '; '.join(diffs)[:700],
                                  'replay': None})


def backend_rows(short, params):
    return [{'name': p.replace('_', '-'), 'dest': p, 'cli': 'CoGuessCli', 'flags': ['--' + p.replace('_', '-')],
             'env': 'CoGuessCfg', 'envvar': f'{short}_{p}'.upper(), 'file': 'CoGuessCfg', 'backend_option': True}
            for p, _ in params]


def coq_value(v):
    if v is None:
        return 'VNull'
    if isinstance(v, bool):
        return f'(VBool {"true" if v else "false"})'
    if isinstance(v, int):
        return f'(VInt ({v}))'
    if isinstance(v, float) and v * 2 == int(v * 2):
        return f'(VHalf ({int(v * 2)}))'
    if isinstance(v, str):
        return f'(VStr {core.coq_string(v)})'
    raise TypeError(v)


def coq_params(params):
    out = []
    for p, d in params:
        if d is None:
            out.append(f'({core.coq_string(p)}, None)')
        else:
            out.append(f'({core.coq_string(p)}, Some {coq_value(d)})')
    return '[' + '; '.join(out) + ']'


# --------------------------------------------------------------------------- raw values per coercion and source
def raw_value(row, src, backend, files, variant):
    """A valid raw value of this option for this source, different for every source.  File sources may be typed."""
    co = row[{'cli': 'cli', 'env': 'env', 'prof': 'file', 'dflt': 'file'}[src]]
    n = {'cli': 1, 'env': 2, 'prof': 3, 'dflt': 4}[src]
    if co == 'CoRepo':
        if backend == 'local':
            return [f'/repos/{src}', f'local:/repos/{src}', f'repos/{src}', f'local:repos:{src}'][(n + variant) % 4]
        return f'{backend}:conn-{src}'
    if co in ('CoNatCli', 'CoNatFile'):
        if src in ('prof', 'dflt') and (n + variant) % 2:
            return 10 + n
        return ['1', '+2', '007', '12'][(n + variant) % 4] if src == 'cli' or variant % 3 == 0 else str(10 + n)
    if co in ('CoStoreTrue', 'CoConstNone'):
        return ''
    if co == 'CoBoolFile':
        return [False, 'false', 'fAlSe', 'False'][variant % 4] if src == 'prof' else [True, 'True', 'TRUE', 'true'][variant % 4]
    if co == 'CoNoCacheFile':
        return [True, 'true', True, False][(n + variant) % 4] if src == 'prof' else [True, False, 'True', 'false'][(n + variant) % 4]
    if co == 'CoPath':
        return f'/cache/{src}'
    if co == 'CoBytes':
        return f'secret-{src}' if variant % 2 == 0 else ['pw with space', '12345', 'none', '"quoted"'][n % 4]
    if co == 'CoReadFile':
        return files[(row['name'], src)]
    if co == 'CoLogLevel':
        return ['debug', 'INFO', 'Warning', 'error', 'critical', 'fatal'][(n + variant) % 6]
    # backend options: stable strings of every kind; typed TOML values in the file
    kinds = [[f'{100 + n}', f'word-{src}', 'true', f'{n}.5', 'none', f"'quoted-{src}'", f'/path/{src}', f'h{n}.example.com'],
             [f'-{n}', 'False', f'"dq-{src}"', f'a:b:{n}', f'x_{src}', '+7', 'None', f'{n}.0']]
    pool = kinds[variant % 2]
    v = pool[(n + variant // 2) % len(pool)]
    if src in ('prof', 'dflt') and (n + variant) % 3 == 0:
        return [100 + n, True, False][variant % 3]      # typed TOML value (13a)
    return v


def toml_value(v):
    if isinstance(v, list):
        return '[' + ', '.join(toml_value(x) for x in v) + ']'
    if isinstance(v, bool):
        return 'true' if v else 'false'
    if isinstance(v, int):
        return str(v)
    return json.dumps(v)


# --------------------------------------------------------------------------- cases
class World:
    def __init__(self, ctx):
        self.root = ctx.scratch / 'c19'
        (self.root / 'home').mkdir(parents=True)
        (self.root / 'cfg').mkdir()
        (self.root / 'files').mkdir()
        (self.root / 'cwd').mkdir()
        d = self.root / 'pcx' / 'replicat' / 'backends'
        d.mkdir(parents=True)
        (d / 'pc.py').write_text(PC_SOURCE)
        (d / 'pcl.py').write_text(PCL_SOURCE)
        # the default configuration file of this HOME: never read as long as --config / --ignore-config are honoured
        dc = self.root / 'home' / '.config' / 'replicat'
        dc.mkdir(parents=True)
        (dc / 'replicat.toml').write_text('concurrent = 22\nlog-level = "critical"\nhide-progress = true\n')
        self.general, self.excl_file, self.excl_cli = DOC_GENERAL, DOC_EXCL_FILE, DOC_EXCL_CLI
        self.backends = {
            'pc': {'short': 'PROUDCLOUD', 'params': PC_PARAMS},
            'pcl': {'short': 'PROUDCLOUDLEGACY', 'params': PCL_PARAMS},
            's3c': DOC_BACKENDS['s3c'],
            's3': DOC_BACKENDS['s3'],
            'local': DOC_BACKENDS['local'],
        }
        # secret files are a value class of their own: the bytes that reach the command are the bytes of the file, whatever
        # they end with (newline, CRLF, blanks) and whichever source names the file
        self.files, k = {}, 0
        endings = [b'', b'\n', b'\r\n', b'\n\n', b' \n', b'\t', b'\r']
        for r in self.general + [{'name': 'new-password-file'}, {'name': 'shared-secret'}]:
            for src in SOURCES:
                p = self.root / 'files' / f'{r["name"]}-{src}'
                p.write_bytes(f'content of {r["name"]} from {src}'.encode() + endings[k % len(endings)])
                k += 1
                self.files[(r['name'], src)] = str(p)
        self.missing_file = str(self.root / 'files' / 'does-not-exist')
        self.n = 0

    def rows(self, backend):
        b = self.backends[backend]
        return self.general + backend_rows(b['short'], b['params'])

    def make_case(self, backend, command, given, selector='cli', profile_mode=0, kind='precedence', label=None, extra=()):
        """given: list of (row, src, raw) for the option under test.  extra: other options set alongside (not judged by
        the oracles, but part of the run and of the model's input).  selector: how the backend is chosen when
        'repository' is not under test.  profile_mode: 0 no file unless needed, 1 file without --profile, 2 --profile prof."""
        case = {'kind': kind, 'backend': backend, 'command': command, 'given': [(r['name'], s, v) for r, s, v in given],
                'extra': [(r['name'], s, v) for r, s, v in extra],
                'selector': selector, 'profile_mode': profile_mode, 'label': label}
        return case

    def long_options(self, backend):
        """Every long option string a command parser may know: all add_argument strings of replicat/utils/cli.py
        (read off the working tree), --help, and the backend's flags.  Used to tell which abbreviations are unambiguous."""
        if not hasattr(self, '_longs'):
            import ast
            from translate import pyast
            tree = pyast.module('replicat/utils/cli.py')
            longs, flags = {'--help'}, {}
            for n in ast.walk(tree):
                if isinstance(n, ast.Call) and isinstance(n.func, ast.Attribute) and n.func.attr == 'add_argument':
                    strs = [a.value for a in n.args if isinstance(a, ast.Constant) and isinstance(a.value, str)]
                    for x in strs:
                        if x.startswith('--'):
                            longs.add(x)
                            flags.setdefault(x, strs)
            self._longs, self._flagsets = longs, flags
        b = self.backends[backend]
        return self._longs | {'--' + p.replace('_', '-') for p, _ in b['params']}

    def spellings(self, backend, canon, takes_value):
        """Ways to write the option `canon` (its full long flag) that argparse may accept: the full flag, unambiguous
        abbreviations (shortest, and one in the middle), '=' forms, the short flag separate and glued."""
        longs = self.long_options(backend)
        prefixes = [canon[:k] for k in range(3, len(canon)) if sum(1 for x in longs if x.startswith(canon[:k])) == 1]
        abbrevs = []
        if prefixes:
            abbrevs = [prefixes[0]] + ([prefixes[len(prefixes) // 2]] if len(prefixes) > 2 else [])
        shorts = [f for f in self._flagsets.get(canon, []) if not f.startswith('--')]
        out = []
        for f in [canon] + abbrevs:
            out.append((f, 'sep'))
            if takes_value:
                out.append((f, 'eq'))
        for f in shorts:
            out.append((f, 'sep'))
            if takes_value:
                out.append((f, 'glued'))
        return out[1:]          # the first one, (canon, 'sep'), is the reference spelling

    def materialise(self, case):
        """argv, env and config file of a case.  Every command-line option is first an item (canonical long flag, the
        row's flags, value or None for a flag) and is then written in the spelling case['respell'] asks for
        ({canonical flag: (flag text, 'sep' | 'eq' | 'glued')}), by default a documented flag and a separate value."""
        backend = case['backend']
        rows = {r['name']: r for r in self.rows(backend)}
        cmd, positional = next(c for c in COMMANDS if c[0] == case['command'])
        items, env, prof, dflt = [], {}, {}, {}
        for name, src, v in case['given'] + case.get('extra', []):
            r = rows[name]
            if src == 'cli':
                items.append(('--' + name, r['flags'], None if r['cli'] in ('CoStoreTrue', 'CoConstNone') else v))
            elif src == 'env':
                env[r['envvar']] = v
            elif src == 'prof':
                prof[name] = v
            else:
                dflt[name] = v
        tested = {n for n, _, _ in case['given'] + case.get('extra', [])}
        if 'repository' not in tested and backend != 'local':
            sel = f'{backend}:base-conn'
            if case['selector'] == 'cli':
                items.insert(0, ('--repository', ['-r'], sel))
            elif case['selector'] == 'env':
                env['REPLICAT_REPOSITORY'] = sel
            else:
                dflt['repository'] = sel
        self.n += 1
        control = []
        if prof or dflt or case['profile_mode'] in (1, 2):
            path = self.root / 'cfg' / f'{case.get("cfgid") or self.n}.toml'
            text = ''.join(f'{k} = {toml_value(v)}\n' for k, v in dflt.items())
            if prof or case['profile_mode'] == 2:
                text += '[prof]\n' + ''.join(f'{k} = {toml_value(v)}\n' for k, v in prof.items())
                text += '[other]\nconcurrent = 77\nport = 1\n'
                control.append(('--profile', ['--profile'], 'prof'))
            path.write_text(text)
            control.append(('--config', ['--config'], str(path)))
        else:
            control.append(('--ignore-config', ['--ignore-config'], None))
        for _ in range(case.get('verbose', 0)):
            control.append(('--verbose', ['-v', '--verbose'], None))
        if case.get('default_location'):
            # the same file at the DEFAULT location of a HOME of its own; neither --config nor --ignore-config is given
            home = self.root / f'home{self.n}'
            (home / '.config' / 'replicat').mkdir(parents=True)
            cfgs = [v for c, _, v in control if c == '--config']
            (home / '.config' / 'replicat' / 'replicat.toml').write_text(Path(cfgs[0]).read_text() if cfgs else '')
            control = [x for x in control if x[0] not in ('--config', '--ignore-config')]
            env['HOME'] = str(home)
        items += [(f, [f], v) for f, v in case.get('argv_extra', [])]
        respell = case.get('respell') or {}
        argv = [cmd]
        for canon, flags, v in control + items:
            flag, joiner = respell.get(canon) or (flags[self.n % len(flags)], 'sep')
            if v is None:
                argv.append(flag)
            elif joiner == 'eq':
                argv.append(f'{flag}={v}')
            elif joiner == 'glued':
                argv.append(f'{flag}{v}')
            else:
                argv += [flag, v]
        argv += positional
        return argv, env

    def run_many(self, cases):
        def one(case):
            argv, env = case['argv'], case['env']
            e = {'PATH': '/usr/bin:/bin', 'HOME': str(self.root / 'home'), 'PYTHONHASHSEED': '0', 'PYTHONDONTWRITEBYTECODE': '1',
                 'PYTHONPATH': f'{self.root / "pcx"}:{core.PYSHIM}:{core.REPO}', 'LANG': 'C.UTF-8'}
            e.update(env)
            try:
                p = subprocess.run([core.PY, str(DRIVER), json.dumps(argv)], env=e, cwd=str(self.root / 'cwd'),
                                   stdout=subprocess.PIPE, stderr=subprocess.PIPE, text=True, timeout=120)
            except subprocess.TimeoutExpired:
                return {'status': 'timeout'}
            for line in p.stdout.splitlines():
                if line.startswith('C19RESULT '):
                    return json.loads(line[len('C19RESULT '):])
            return {'status': 'no-result', 'stderr': p.stderr[-400:]}
        for c in cases:
            c['argv'], c['env'] = self.materialise(c)
        with ThreadPoolExecutor(max_workers=16) as ex:
            return list(ex.map(one, cases))


def subsets(avail):
    for k in range(len(avail) + 1):
        yield from itertools.combinations(avail, k)


def other_option(world, backend, row, src):
    """Another option (different destination) with a valid value, to populate a section next to the option under test."""
    rows = {r['name']: r for r in world.rows(backend)}
    if row['dest'] != 'log_level':
        return (rows['log-level'], src, 'error')
    return (rows['concurrent'], src, 3)


def invariance_cases(world, backends):
    """An option set ONLY in the default section, with a value that differs from the built-in: it must take effect, and the
    same way whether no profile is selected, a profile that does not mention it, or a profile that sets other options."""
    values = {'repository': '{b}:conn-inv', 'concurrent': 14, 'hide-progress': True, 'cache-directory': '/cache/inv', 'no-cache': True,
              'password': 'secret-inv', 'key': 'inline-key-inv', 'log-level': 'debug'}
    cases = []
    for backend in backends:
        for row in world.rows(backend):
            if not row['backend_option'] and backend != 'pc' and row['name'] != 'repository':
                continue
            if row['file'] == 'CoReadFile':
                v = world.files[(row['name'], 'dflt')]
            elif row['backend_option']:
                v = f'word-inv-{row["dest"]}'
            else:
                v = values[row['name']]
                v = v.format(b=backend) if isinstance(v, str) else v
            for variant in range(3):
                extra = [other_option(world, backend, row, 'prof')] if variant == 2 else []
                cases.append(world.make_case(backend, COMMANDS[(len(cases)) % len(COMMANDS)][0], [(row, 'dflt', v)], selector='cli',
                                             profile_mode=[1, 2, 2][variant], kind='invariance', extra=extra,
                                             label=f'{backend}/{row["name"]}'))
            cases.append(world.make_case('local' if row['name'] == 'repository' else backend, 'clean', [], selector='cli', profile_mode=0,
                                         kind='invariance-base', label=f'{backend}/{row["name"]}'))
    return cases


def spelling_cases(world, ctx, backends, per_option):
    """Whatever spelling of an option the command line parser accepts (full flag, unambiguous abbreviation, --opt=value,
    short flag, glued short flag) must act exactly like the full spelling - for the options main() needs before it knows the
    command and the backend (repository, profile, config, ignore-config, verbose) as for all others.  Every scenario also
    sets lower sources to other values, so an ignored spelling shows."""
    cases, ci = [], 0

    def scenario(backend, canon, takes_value, make):
        nonlocal ci
        sp = world.spellings(backend, canon, takes_value)
        if per_option is not None and len(sp) > per_option:
            sp = ctx.rng.sample(sp, per_option)
        lab = f'{backend}:{canon}:{len(cases)}'
        cmd = COMMANDS[ci % len(COMMANDS)][0]
        ci += 1
        for k, spell in enumerate([None] + sp):
            c = make(cmd)
            c.update(kind='spelling', label=lab, cfgid=f'sp{abs(hash(lab)) % 10**9}', ref=spell is None,
                     respell={canon: spell or (canon, 'sep')}, spelled=spell or (canon, 'sep'))
            cases.append(c)

    for backend in backends:
        for row in world.rows(backend):
            if not row['cli'] or (not row['backend_option'] and backend != 'pc' and row['name'] != 'repository'):
                continue
            lower = [s for s in ('env', 'prof', 'dflt') if row[{'env': 'env', 'prof': 'file', 'dflt': 'file'}[s]]]
            takes_value = row['cli'] not in ('CoStoreTrue', 'CoConstNone')

            def make(cmd, row=row, lower=lower, backend=backend):
                given = [(row, 'cli', raw_value(row, 'cli', backend, world.files, 0))]
                if row['name'] != 'no-cache':
                    given += [(row, s, raw_value(row, s, backend, world.files, 0)) for s in lower]
                extra = [(next(r for r in world.general if r['name'] == 'cache-directory'), 'dflt', '/cache/lower')] if row['name'] == 'no-cache' else []
                return world.make_case(backend, cmd, given, selector='env', profile_mode=2, extra=extra)
            scenario(backend, '--' + row['name'], takes_value, make)
    rows = {r['name']: r for r in world.rows('pc')}
    conc, lvl = rows['concurrent'], rows['log-level']
    # --profile: the profile's values over the default section's
    scenario('pc', '--profile', True, lambda cmd: world.make_case('pc', cmd, [(conc, 'prof', 13), (conc, 'dflt', 14)], profile_mode=2))
    # --config: the named file instead of the default configuration file of HOME
    scenario('pc', '--config', True, lambda cmd: world.make_case('pc', cmd, [(conc, 'dflt', 21)], profile_mode=1))
    # --ignore-config: no file at all, not even the default one
    scenario('pc', '--ignore-config', False, lambda cmd: world.make_case('pc', cmd, [], profile_mode=0))
    # --verbose: decides the logging level although the file names another one
    def verbose_case(cmd):
        c = world.make_case('pc', cmd, [(lvl, 'dflt', 'error')], profile_mode=1)
        c['verbose'] = 1
        return c
    scenario('pc', '--verbose', False, verbose_case)
    return cases


def collision_cases(world):
    """Several typed options in ONE configuration whose values compare equal across types (true / 1 / 1.0 / "1", false / 0 /
    0.0 / "0"): every option must get the value AND the type it gets when it is the only option set.  Plus a TOML array."""
    rows = {r['name']: r for r in world.rows('pc')}
    opts = ['account-id', 'secret', 'port', 'legacy', 'timeout', 'retries']
    T, F = [True, 1, 1.0, '1'], [False, 0, 0.0, '0']
    combos = []
    for k in range(4):
        combos.append([(o, 'dflt', T[(i + k) % 4]) for i, o in enumerate(opts)])
        combos.append([(o, 'prof' if i % 2 else 'dflt', F[(i + k) % 4]) for i, o in enumerate(opts)])
    combos.append([(o, 'prof', (T + F)[(i * 3) % 8]) for i, o in enumerate(opts)])
    combos.append([('legacy', 'dflt', True), ('timeout', 'dflt', 1.0)])
    combos.append([('legacy', 'prof', False), ('retries', 'dflt', 0), ('timeout', 'prof', 0.0)])
    combos.append([('port', 'dflt', 1), ('legacy', 'env', 'true'), ('timeout', 'prof', 1.0), ('retries', 'cli', '1'), ('secret', 'env', '1.0')])
    cases, singles = [], set()
    for k, combo in enumerate(combos):
        cases.append(world.make_case('pc', COMMANDS[k % len(COMMANDS)][0], [(rows[o], s, v) for o, s, v in combo], kind='collision',
                                     profile_mode=2, label=f'collision{k}'))
        singles |= {(o, s if s in ('cli', 'env') else 'dflt', json.dumps(v)) for o, s, v in combo}
    for k, (o, s, jv) in enumerate(sorted(singles)):
        cases.append(world.make_case('pc', COMMANDS[k % len(COMMANDS)][0], [(rows[o], s, json.loads(jv))], kind='collision-single',
                                     profile_mode=1, label=f'{o}|{s in ("cli", "env")}|{jv}'))
    c = world.make_case('pc', 'clean', [(rows['mode'], 'dflt', ['a', 'b']), (rows['legacy'], 'dflt', True)], kind='typed-list', profile_mode=1)
    c['nomodel'] = True
    cases.append(c)
    return cases


def secret_file_cases(world):
    """File-valued options beyond the tables: -N/--new-password-file of add-key; the default-location configuration file
    (HOME) against the same file named with --config, with existing and MISSING secret files."""
    rows = {r['name']: r for r in world.rows('pc')}
    cases = []
    for src in SOURCES:
        for flag in ('-N', '--new-password-file'):
            c = world.make_case('pc', 'add-key', [], kind='newpw', label=world.files[('new-password-file', src)])
            c['argv_extra'] = [(flag, world.files[('new-password-file', src)])]
            cases.append(c)
    scen = []
    for fileopt in ('password-file', 'key-file'):
        for missing in (False, True):
            for sec in ('dflt', 'prof'):
                path = world.missing_file if missing else world.files[(fileopt, sec)]
                given = [(rows['concurrent'], 'dflt', 13), (rows[fileopt], sec, path), (rows['log-level'], sec, 'debug'),
                         (rows['port'], 'dflt', 4321), (rows['secret'], sec, 'word-from-file'), (rows['repository'], 'dflt', 'pc:conn-file')]
                scen.append((given, missing))
    scen.append(([(rows['concurrent'], 'dflt', 17), (rows['cache-directory'], 'prof', '/cache/file'), (rows['repository'], 'dflt', 'pc:conn-file')], False))
    scen.append(([], False))
    for k, (given, missing) in enumerate(scen):
        for default_location in (False, True):
            c = world.make_case('pc', COMMANDS[k % len(COMMANDS)][0], given, selector='dflt',
                                profile_mode=2 if any(s == 'prof' for _, s, _ in given) else 1, kind='location', label=f'loc{k}')
            c.update(default_location=default_location, cfgid=f'loc{k}', missing=missing, nomodel=missing)
            cases.append(c)
    return cases


def precedence_cases(world, ctx, backends, all_commands):
    """every option x every subset of its sources (x every command in the thorough tier)."""
    cases, ci = [], 0
    for backend in backends:
        for row in world.rows(backend):
            if backend != 'pc' and not row['backend_option'] and not all_commands and row['name'] not in ('repository', 'password'):
                continue          # quick tier: general options once (with the custom backend), repository/password everywhere
            avail = [s for s in SOURCES if row[{'cli': 'cli', 'env': 'env', 'prof': 'file', 'dflt': 'file'}[s]]]
            for sub in subsets(avail):
                cmds = COMMANDS if all_commands else [COMMANDS[ci % len(COMMANDS)]]
                for cmd, _ in cmds:
                    variant = ctx.rng.randrange(8)
                    given = [(row, s, raw_value(row, s, backend, world.files, variant)) for s in sub]
                    case_backend = 'local' if row['name'] == 'repository' and not sub else backend   # built-in repository
                    sel = ['cli', 'cli', 'env', 'dflt'][ci % 4] if 'dflt' not in sub and 'prof' not in sub else ['cli', 'env'][ci % 2]
                    mode, extra = ci % 3, []
                    if 'dflt' in sub and 'prof' not in sub:
                        # the default section is a source: mostly WITH a selected profile - an existing section that does
                        # not mention the option, or one that sets other options
                        mode = [2, 2, 1, 2, 0][ci % 5]
                        if ci % 5 in (1, 3):
                            extra = [other_option(world, backend, row, 'prof')]
                    # verbosity is a dimension of every case: -v / -vv on the command line, log-level in the file
                    if row['dest'] != 'log_level' and ci % 4 == 1 and (mode in (1, 2) or 'prof' in sub or 'dflt' in sub):
                        lvl = next(r for r in world.general if r['name'] == 'log-level')
                        sec = 'prof' if ('prof' in sub or (mode == 2 and ci % 8 == 1)) else 'dflt'
                        if not any(r['name'] == 'log-level' for r, _, _ in extra):
                            extra = extra + [(lvl, sec, ['info', 'debug', 'INFO'][ci % 3])]
                    c = world.make_case(case_backend, cmd, given, selector=sel, profile_mode=mode, extra=extra)
                    c['verbose'] = [0, 0, 1, 2, 0, 1][ci % 6]
                    cases.append(c)
                    ci += 1
    return cases


def agreement_cases(world, ctx, backends):
    """the same string through each string-taking source alone: the effective value and type must be the same."""
    cases = []
    strings = {'CoRepo': ['{b}:same-conn', 'local:/same/dir', 'plain/dir'], 'CoNatCli': ['3', '+4', '010'], 'CoPath': ['/same/cache'],
               'CoBytes': ['same-password', '123', 'true', ''], 'CoReadFile': ['@0', '@1', '@2', '@3'], 'CoGuessCli': ['123', 'word', '', 'true', 'None', '2.5', "'quoted'", 'a.b/c:d', '-8']}
    ci = 0
    for backend in backends:
        for row in world.rows(backend):
            if row['cli'] not in strings:
                continue
            if not row['backend_option'] and backend != 'pc':
                continue
            for s in (strings[row['cli']] if backend == 'pc' else strings[row['cli']][:3]):
                s = s.format(b=backend)
                if s.startswith('@'):       # one secret file (ending: none / LF / CRLF / LF LF), named from every source
                    s = world.files[('shared-secret', SOURCES[int(s[1:])])]
                if row['cli'] == 'CoRepo' and not s.startswith(backend) and backend != 'local':
                    b2 = 'local'
                else:
                    b2 = backend
                for src in [x for x in SOURCES if row[{'cli': 'cli', 'env': 'env', 'prof': 'file', 'dflt': 'file'}[x]]]:
                    cmd = COMMANDS[ci % len(COMMANDS)][0]
                    ci += 1
                    cases.append(world.make_case(b2 if row['name'] == 'repository' else backend, cmd, [(row, src, s)],
                                                 kind='agreement', label=f'{backend}/{row["name"]}/{s}'))
    return cases


def exclusive_cases(world):
    cases = []
    f = world.files
    rows = {r['name']: r for r in world.general}
    for a, b in world.excl_file:
        va = f[(a, 'prof')] if rows[a]['file'] == 'CoReadFile' else 'inline-' + a
        vb = f[(b, 'prof')] if rows[b]['file'] == 'CoReadFile' else 'inline-' + b
        for sa, sb in (('prof', 'prof'), ('dflt', 'dflt'), ('prof', 'dflt'), ('dflt', 'prof')):
            cases.append(world.make_case('pc', 'list-snapshots', [(rows[a], sa, va), (rows[b], sb, vb)], kind='exclusive'))
        # the pair is in conflict when both KEYS are present, also when a value is empty or falsy (a placeholder)
        k = 0
        for ea, eb in (('', vb), (va, ''), ('', ''), (0, vb), (False, vb), (va, 0), (va, False)):
            sa, sb = [('dflt', 'prof'), ('prof', 'dflt'), ('dflt', 'dflt'), ('prof', 'prof')][k % 4]
            k += 1
            c = world.make_case('pc', 'ls', [(rows[a], sa, ea), (rows[b], sb, eb)], kind='exclusive')
            cases.append(c)
    for a, b in world.excl_cli:
        va = f[(a, 'cli')] if rows[a]['cli'] == 'CoReadFile' else '/cli/' + a
        vb = f[(b, 'cli')] if rows[b]['cli'] == 'CoReadFile' else '/cli/' + b
        cases.append(world.make_case('pc', 'restore', [(rows[a], 'cli', va), (rows[b], 'cli', vb)], kind='exclusive'))
        cases.append(world.make_case('local', 'init', [(rows[b], 'cli', vb), (rows[a], 'cli', va)], kind='exclusive'))
    # members of a pair in different sources are not in conflict: the higher source wins
    for a, b in world.excl_file + world.excl_cli:
        if rows[a]['cli'] and rows[b]['file']:
            va = f[(a, 'cli')] if rows[a]['cli'] == 'CoReadFile' else '/cli/' + a
            vb = f[(b, 'dflt')] if rows[b]['file'] == 'CoReadFile' else (True if rows[b]['file'] == 'CoNoCacheFile' else 'inline-' + b)
            cases.append(world.make_case('pc', 'clean', [(rows[a], 'cli', va), (rows[b], 'dflt', vb)], kind='cross-source'))
        if rows[b]['cli'] and rows[a]['file']:
            vb = f[(b, 'cli')] if rows[b]['cli'] == 'CoReadFile' else '/cli/' + b
            va = f[(a, 'prof')] if rows[a]['file'] == 'CoReadFile' else (True if rows[a]['file'] == 'CoNoCacheFile' else 'inline-' + a)
            cases.append(world.make_case('pc', 'ls', [(rows[b], 'cli', vb), (rows[a], 'prof', va)], kind='cross-source'))
    return cases


def invalid_cases(world):
    """values a coercion refuses: the program must stop, also when a higher source would override them."""
    rows = {r['name']: r for r in world.rows('pc')}
    out = []
    for name, src, v in (('concurrent', 'cli', '0'), ('concurrent', 'cli', 'many'), ('concurrent', 'dflt', 0), ('concurrent', 'prof', '-3'),
                         ('concurrent', 'dflt', False), ('hide-progress', 'prof', 'maybe'), ('hide-progress', 'dflt', 1),
                         ('no-cache', 'dflt', 'nope'), ('log-level', 'prof', 'loud'), ('repository', 'env', '1bad:conn'),
                         ('repository', 'cli', 'bad-name:conn'), ('repository', 'dflt', 'has space:conn')):
        out.append(world.make_case('pc', 'list-files', [(rows[name], src, v)], kind='invalid'))
    out.append(world.make_case('pc', 'lf', [(rows['concurrent'], 'cli', '4'), (rows['concurrent'], 'dflt', 0)], kind='invalid'))
    out.append(world.make_case('pc', 'lf', [(rows['concurrent'], 'dflt', True)], kind='edge'))      # bool is an int: accepted as True
    return out


def double_coercion_cases(world):
    """DESIGN.md section 5 row 13b: a str from the environment / the file is passed through guess_type twice."""
    rows = {r['name']: r for r in world.rows('pc')}
    out = []
    for s in ('"123"', "'true'", '"none"', "'2.5'"):
        for src in SOURCES:
            out.append(world.make_case('pc', 'init', [(rows['secret'], src, s)], kind='double', label=s))
    return out


# --------------------------------------------------------------------------- model side
PRELUDE = '''Set Printing Depth 1000000.
Set Printing Width 240.
From Coq Require Import String ZArith List.
From Replicat Require Import Model.PyVal Model.Options Gen.C19Tables.
Import ListNotations.
Open Scope string_scope.
Open Scope Z_scope.
Open Scope list_scope.
Definition table (params : list (string * option value)) := C19Tables.general_rows ++ map backend_row params.
Definition go (params : list (string * option value)) (s : sources) := run_main (table params) C19Tables.excl_file C19Tables.excl_cli s.
'''


def coq_sources(world, case):
    if case.get('nomodel'):          # not compared with the model (values it has no term for): an empty placeholder
        return '{| s_cli := []; s_env := []; s_prof := []; s_dflt := [] |}'
    cli, env, prof, dflt = [], [], [], []
    for name, src, v in case['given'] + case.get('extra', []):
        if src == 'cli':
            cli.append(f'({core.coq_string(name)}, {core.coq_string(v)})')
        elif src == 'env':
            env.append(f'({core.coq_string(name)}, {core.coq_string(v)})')
        elif src == 'prof':
            prof.append(f'({core.coq_string(name)}, {coq_value(v)})')
        else:
            dflt.append(f'({core.coq_string(name)}, {coq_value(v)})')
    tested = {n for n, _, _ in case['given'] + case.get('extra', [])}
    if 'repository' not in tested and case['backend'] != 'local':
        sel = core.coq_string(f'{case["backend"]}:base-conn')
        if case['selector'] == 'cli':
            cli.insert(0, f'("repository", {sel})')
        elif case['selector'] == 'env':
            env.append(f'("repository", {sel})')
        else:
            dflt.append(f'("repository", (VStr {sel}))')
    return (f'{{| s_cli := [{"; ".join(cli)}]; s_env := [{"; ".join(env)}]; s_prof := [{"; ".join(prof)}]; '
            f's_dflt := [{"; ".join(dflt)}] |}}')


def run_model(world, cases, per_file=200):
    jobs = []
    for i in range(0, len(cases), per_file):
        chunk = cases[i:i + per_file]
        lines = [PRELUDE]
        for b, spec in world.backends.items():
            lines.append(f'Definition params_{b} : list (string * option value) := {coq_params(spec["params"])}.')
        lines.append('Eval vm_compute in [')
        lines.append(';\n'.join(f'  go params_{c["backend"]} {coq_sources(world, c)}' for c in chunk))
        lines.append('].')
        jobs.append((f'c19_{i // per_file}', '\n'.join(lines) + '\n'))
    res = core.coq_eval_files(jobs)
    out = []
    for name, _ in jobs:
        rc, text = res[name]
        if rc != 0:
            return None, text[-1500:]
        out += core.parse_coq_term(core.parse_coq_values(text)[0])
    return out, ''


def nullary(t):
    return t[1] if isinstance(t, tuple) and len(t) == 2 and t[0] == 'ctor' else t


def model_eff(t, obs, files_content):
    """Model [eff] term -> the encoded form the driver prints."""
    t = nullary(t)
    if t == 'EMissing':
        return ['missing']
    tag = t[0]
    if tag == 'EVal':
        v = nullary(t[1])
        if v == 'VNull':
            return ['null']
        if v[0] == 'VBool':
            return ['bool', v[1]]
        if v[0] == 'VInt':
            return ['int', v[1]]
        if v[0] == 'VHalf':
            return ['float', repr(v[1] / 2)]
        if v[0] == 'VStr':
            return ['str', v[1]]
        return ['other']
    if tag == 'ERepo':
        conn = obs.get('cwd') if t[2] == '<cwd>' else t[2]
        return ['tuple', [['str', t[1]], ['str', conn]]]
    if tag == 'EPath':
        return ['path', obs.get('default_cache') if t[1] == '<default-cache>' else t[1]]
    if tag == 'EBytes':
        return ['bytes', t[1]]
    if tag == 'EFile':
        return ['bytes', files_content.get(t[1], '<unreadable>')]
    raise ValueError(t)


# --------------------------------------------------------------------------- checks
def label(case):
    return {k: case[k] for k in ('kind', 'backend', 'command', 'given', 'extra', 'selector', 'profile_mode', 'respell', 'verbose',
                                 'default_location', 'argv_extra', 'missing', 'argv', 'env') if k in case}


def observed_value(world, case, obs, dest):
    return obs.get('args', {}).get(dest)


def check(world, cases, rep: Report, with_model=True):
    results = world.run_many(cases)
    files_content = {p: Path(p).read_bytes().decode('latin-1') for p in world.files.values()}
    rows_by_backend = {b: {r['name']: r for r in world.rows(b)} for b in world.backends}
    for case, obs in zip(cases, results):
        rep.case((case['kind'], case['backend'], case['command'], case['given'], case.get('extra'), case['selector'], case['profile_mode'], case.get('respell'), case.get('verbose')), nontrivial=True)
        rep.count(f'{case["kind"]}:{obs["status"]}')
        rep.count('command:' + case['command'])
        rep.count('sources:' + ('+'.join(sorted({s for _, s, _ in case['given']})) or 'none'))
        if obs['status'] in ('timeout', 'no-result', 'no-handler'):
            rep.disagreements.append({'what': f'the driver produced no result ({obs["status"]}): {obs.get("stderr", "")[-200:]}', 'replay': label(case)})
    for c, o in list(zip(cases, results))[:3]:
        rep.sample({'argv': c['argv'], 'env': c['env'], 'status': o['status'],
                    'effective': {n: o.get('args', {}).get(rows_by_backend[c['backend']][n]['dest']) for n, _, _ in c['given']}})

    # ---- model-free oracles
    # (1) precedence: the value with several sources = the value with only the winning source
    single = {}
    for case, obs in zip(cases, results):
        if case['kind'] == 'precedence' and len(case['given']) == 1 and obs['status'] == 'ok':
            name, src, v = case['given'][0]
            dest = rows_by_backend[case['backend']][name]['dest']
            k = (case['backend'], name, src, json.dumps(v))
            if k in single and single[k] != obs['args'].get(dest):
                rep.violations.append({'what': f'option {name} set only in {src} to {v!r}: effective value {obs["args"].get(dest)} in one run, {single[k]} in another '
                                               '(other command / profile selection / way of naming the backend)',
                                       'signature': {'kind': 'precedence', 'option': name, 'backend': case['backend']}, 'replay': label(case)})
            single[k] = obs['args'].get(dest)
    for case, obs in zip(cases, results):
        if case['kind'] != 'precedence' or len(case['given']) < 2:
            continue
        name = case['given'][0][0]
        dest = rows_by_backend[case['backend']][name]['dest']
        winner = min(case['given'], key=lambda g: SOURCES.index(g[1]))
        ref = single.get((case['backend'], name, winner[1], json.dumps(winner[2])))
        if obs['status'] != 'ok':
            rep.violations.append({'what': f'option {name} set validly in {[s for _, s, _ in case["given"]]}: the program stops ({obs.get("error") or obs.get("code")})',
                                   'signature': {'kind': 'precedence', 'option': name, 'backend': case['backend']}, 'replay': label(case)})
        elif ref is not None and obs['args'].get(dest) != ref:
            rep.violations.append({'what': f'option {name} set in {[s for _, s, _ in case["given"]]}: effective value {obs["args"].get(dest)} is not the one of '
                                           f'the highest source {winner[1]} ({ref})',
                                   'signature': {'kind': 'precedence', 'option': name, 'backend': case['backend']}, 'replay': label(case)})
    # (2) the same string through every source
    groups = {}
    for case, obs in zip(cases, results):
        if case['kind'] in ('agreement', 'double'):
            name, src, v = case['given'][0]
            dest = rows_by_backend[case['backend']][name]['dest']
            val = obs['args'].get(dest) if obs['status'] == 'ok' else ['stopped', obs.get('error') or obs.get('code')]
            groups.setdefault((case['kind'], case['label'], name), []).append((src, val, case))
    for (kind, lab, name), items in groups.items():
        vals = {json.dumps(v) for _, v, _ in items}
        if len(vals) > 1:
            what = (f'option {name}: the string {items[0][2]["given"][0][2]!r} becomes ' +
                    ', '.join(f'{v} from {s}' for s, v, _ in items))
            rep.violations.append({'what': what, 'signature': {'kind': 'double_coercion' if kind == 'double' else 'coercion', 'option': name},
                                   'replay': [label(c) for _, _, c in items]})
    # (3) exclusive pairs in one source stop the program; in different sources the higher one wins
    for case, obs in zip(cases, results):
        if case['kind'] == 'exclusive' and obs['status'] == 'ok':
            rep.violations.append({'what': f'mutually exclusive options {[n for n, _, _ in case["given"]]} given together in '
                                           f'{[s for _, s, _ in case["given"]]} are accepted',
                                   'signature': {'kind': 'exclusive', 'options': [n for n, _, _ in case['given']]}, 'replay': label(case)})
        if case['kind'] == 'invalid' and obs['status'] == 'ok':
            rep.violations.append({'what': f'invalid value accepted: {case["given"]}', 'signature': {'kind': 'invalid_accepted'}, 'replay': label(case)})

    # (5) an option of the default section takes effect, however (and whether) a profile is selected
    inv, base = {}, {}
    for case, obs in zip(cases, results):
        if case['kind'] in ('invariance', 'invariance-base'):
            name = case['label'].split('/', 1)[1]
            dest = rows_by_backend[case['backend']][name]['dest']
            val = obs['args'].get(dest) if obs['status'] == 'ok' else ['stopped', obs.get('error') or obs.get('code')]
            (inv if case['kind'] == 'invariance' else base).setdefault(case['label'], []).append((val, case))
    for lab, items in inv.items():
        vals = {json.dumps(v) for v, _ in items}
        b = base.get(lab, [(None, None)])[0][0]
        how = ['no profile selected', 'a profile that does not mention it', 'a profile that sets other options']
        if len(vals) > 1 or json.dumps(b) in vals:
            rep.violations.append({'what': f'option {lab.split("/", 1)[1]} set only in the default section (backend {lab.split("/")[0]}): effective value ' +
                                           ', '.join(f'{v} with {h}' for (v, _), h in zip(items, how)) + f'; built-in {b}',
                                   'signature': {'kind': 'default_section_lost', 'option': lab.split('/', 1)[1], 'backend': lab.split('/')[0]},
                                   'replay': [label(c) for _, c in items]})
    # (6) every accepted spelling of a command-line option acts like the full spelling
    def fingerprint(obs):
        return {'args': obs.get('args'), 'loaded': obs.get('loaded'), 'backend': obs.get('backend'), 'log': obs.get('root_log_level')}
    refs = {c['label']: o for c, o in zip(cases, results) if c['kind'] == 'spelling' and c.get('ref')}
    for case, obs in zip(cases, results):
        if case['kind'] != 'spelling' or case.get('ref'):
            continue
        ref = refs.get(case['label'])
        rep.count('spelling:' + ('accepted' if obs['status'] == 'ok' else 'refused'))
        if ref is None or ref['status'] != 'ok' or obs['status'] != 'ok':
            continue            # a spelling the parser refuses with an error is fine
        a, b = fingerprint(obs), fingerprint(ref)
        if a != b:
            diff = [f'{k}: {(a["args"] or {}).get(k)} instead of {(b["args"] or {}).get(k)}' for k in sorted(set(a['args'] or {}) | set(b['args'] or {}))
                    if (a['args'] or {}).get(k) != (b['args'] or {}).get(k)]
            diff += [f'{k}: {a[k]} instead of {b[k]}' for k in ('loaded', 'backend', 'log') if a[k] != b[k]]
            rep.violations.append({'what': f'the command line {case["argv"]} is accepted but does not act like the full spelling {case["respell"]}: ' + '; '.join(diff)[:400],
                                   'signature': {'kind': 'spelling', 'option': list(case['respell'])[0]},
                                   'replay': label(case)})
    # (7) a file-valued option delivers exactly the bytes of the file, whichever source names it
    for case, obs in zip(cases, results):
        if obs['status'] != 'ok':
            continue
        if case['kind'] == 'newpw':
            want = ['bytes', files_content[case['label']]]
            if obs['args'].get('new_password') != want:
                rep.violations.append({'what': f'{case["argv"]}: the new password is {obs["args"].get("new_password")}, the file holds {want}',
                                       'signature': {'kind': 'secret_file_bytes', 'option': 'new-password-file'}, 'replay': label(case)})
        elif case['kind'] in ('precedence', 'agreement') and case['given']:
            winner = min(case['given'], key=lambda g: SOURCES.index(g[1]))
            row = rows_by_backend[case['backend']][winner[0]]
            if row[{'cli': 'cli', 'env': 'env', 'prof': 'file', 'dflt': 'file'}[winner[1]]] == 'CoReadFile' and len({n for n, _, _ in case['given']}) == 1:
                want = ['bytes', files_content.get(winner[2])]
                if obs['args'].get(row['dest']) != want:
                    rep.violations.append({'what': f'option {winner[0]} from {winner[1]} names a file holding {want}; the command receives {obs["args"].get(row["dest"])}',
                                           'signature': {'kind': 'secret_file_bytes', 'option': winner[0]}, 'replay': label(case)})
    # (10) a password / key given as a string reaches the command as exactly these bytes, whatever the verbosity
    for case, obs in zip(cases, results):
        if obs['status'] != 'ok' or case['kind'] not in ('precedence', 'agreement') or not case['given']:
            continue
        if len({n for n, _, _ in case['given']}) != 1:
            continue
        winner = min(case['given'], key=lambda g: SOURCES.index(g[1]))
        row = rows_by_backend[case['backend']][winner[0]]
        if row[{'cli': 'cli', 'env': 'env', 'prof': 'file', 'dflt': 'file'}[winner[1]]] == 'CoBytes' and isinstance(winner[2], str):
            want = ['bytes', winner[2]]
            if obs['args'].get(row['dest']) != want:
                rep.violations.append({'what': f'{case["argv"]} with {case["env"]}: option {winner[0]} from {winner[1]} is {winner[2]!r}; the command receives {obs["args"].get(row["dest"])}',
                                       'signature': {'kind': 'secret_value', 'option': winner[0], 'source': winner[1]}, 'replay': label(case)})
    # (8) the configuration file at its default location acts exactly like the same file named with --config: both are
    #     refused loudly (a secret file that does not exist), or both give the same effective values
    loc = {}
    for case, obs in zip(cases, results):
        if case['kind'] == 'location':
            loc.setdefault(case['label'], {})[bool(case.get('default_location'))] = (case, obs)
    for lab, pair in loc.items():
        if len(pair) != 2:
            continue
        (cn, on), (cd, od) = pair[False], pair[True]
        strip = lambda o: {k: v for k, v in (o.get('args') or {}).items() if k not in ('configuration_file', 'cache_directory')}  # noqa
        what = None
        if cn.get('missing') and (on['status'] == 'ok' or od['status'] == 'ok'):
            what = (f'the configuration file names a secret file that does not exist; the command is not refused '
                    f'(--config: {on["status"]}, default location: {od["status"]})')
        elif (on['status'] == 'ok') != (od['status'] == 'ok'):
            what = f'named with --config the run is {on["status"]} ({on.get("error") or on.get("code")}), at the default location {od["status"]}'
        elif on['status'] == 'ok' and (strip(on) != strip(od) or on.get('backend') != od.get('backend') or on.get('loaded') != od.get('loaded')):
            what = 'named with --config and at the default location the same file gives different effective values'
        if what:
            a = strip(od)
            rep.violations.append({'what': f'configuration file {cd["given"]}: {what}; effective at the default location: ' +
                                           str({k: a.get(rows_by_backend['pc'][n]['dest']) for n, _, _ in cd['given'] for k in [n]})[:300],
                                   'signature': {'kind': 'default_location_config', 'missing_file': bool(cn.get('missing'))},
                                   'replay': [label(cn), label(cd)]})
    # (9) options do not influence each other: in a configuration with several typed options every option has the value and
    #     the type it has when it is the only one set
    alone = {c['label']: o for c, o in zip(cases, results) if c['kind'] == 'collision-single'}
    for case, obs in zip(cases, results):
        if case['kind'] == 'typed-list':
            want = ['list', [['str', 'a'], ['str', 'b']]]
            if obs['status'] != 'ok' or obs['args'].get('mode') != want:
                rep.violations.append({'what': f'a TOML array for a backend option: {obs["status"]} {obs.get("error", "")} {obs.get("args", {}).get("mode")} instead of {want}',
                                       'signature': {'kind': 'typed_values_interfere', 'what': 'array'}, 'replay': label(case)})
        if case['kind'] != 'collision':
            continue
        if obs['status'] != 'ok':
            rep.violations.append({'what': f'configuration {case["given"]}: the program stops ({obs.get("error") or obs.get("code")}: {obs.get("message", "")[:80]})',
                                   'signature': {'kind': 'typed_values_interfere', 'what': 'stops'}, 'replay': label(case)})
            continue
        for name, src, v in case['given']:
            ref = alone.get(f'{name}|{src in ("cli", "env")}|{json.dumps(v)}')
            dest = rows_by_backend['pc'][name]['dest']
            if ref is not None and ref['status'] == 'ok' and obs['args'].get(dest) != ref['args'].get(dest):
                rep.violations.append({'what': f'option {name} = {v!r} ({src}) becomes {obs["args"].get(dest)} next to {[(n, x) for n, _, x in case["given"] if n != name]}, '
                                               f'but {ref["args"].get(dest)} when it is the only option set',
                                       'signature': {'kind': 'typed_values_interfere', 'what': 'value'}, 'replay': label(case)})
                break
    # (11) the backend constructor receives the effective value of every backend option (None included), and nothing for an
    #      option nobody supplied that has no default
    for case, obs in zip(cases, results):
        if obs['status'] != 'ok' or 'backend' not in obs:
            continue
        kwargs = obs['backend'].get('kwargs', {})
        for dest in obs.get('signature', []):
            eff = obs['args'].get(dest)
            if (eff == ['missing'] and dest in kwargs) or (eff != ['missing'] and kwargs.get(dest) != eff):
                rep.violations.append({'what': f'{case["argv"]} with {case["env"]}: the effective value of backend option {dest} is {eff}, the backend is constructed with '
                                               f'{kwargs.get(dest, "nothing (its own default)")}',
                                       'signature': {'kind': 'constructor_argument', 'backend': case['backend']}, 'replay': label(case)})
                break
    # (4) the backend that was loaded and constructed is the one the effective repository names
    for case, obs in zip(cases, results):
        if obs['status'] == 'ok':
            repo = obs['args'].get('repository')
            if not (repo and repo[0] == 'tuple' and obs.get('loaded') == repo[1][0][1] and obs.get('backend', {}).get('conn') == repo[1][1]):
                rep.violations.append({'what': f'the effective repository is {repo} but the backend module loaded is {obs.get("loaded")!r} '
                                               f'constructed with {obs.get("backend", {}).get("conn")}',
                                       'signature': {'kind': 'backend_mismatch', 'backend': case['backend']}, 'replay': label(case)})

    # ---- correspondence with the model
    if with_model and cases:
        model, err = run_model(world, cases)
        if model is None:
            rep.disagreements.append({'what': 'the options model could not be evaluated: ' + err, 'replay': None})
            return results
        for case, obs, m in zip(cases, results, model):
            if obs['status'] in ('timeout', 'no-result', 'no-handler') or case.get('nomodel'):
                continue            # nomodel: the model has no file system (a secret file that does not exist)
            rep.traces_validated += 1
            if m is None:
                if obs['status'] == 'ok':
                    rep.disagreements.append({'what': 'the model says the program stops, the implementation ran the handler', 'replay': label(case)})
                continue
            if obs['status'] != 'ok':
                rep.disagreements.append({'what': f'the model predicts a namespace, the implementation stops ({obs.get("error") or obs.get("code")}: {obs.get("message", "")[:80]})',
                                          'replay': label(case)})
                continue
            diffs = []
            ns = {d: e for d, e in m[1]}
            kwargs = obs.get('backend', {}).get('kwargs', {})
            for dest, e in ns.items():
                want = model_eff(e, obs, files_content)
                got = obs['args'].get(dest)
                if want != got:
                    diffs.append(f'{dest}: model {want} implementation {got}')
                if dest in obs.get('signature', []):
                    if want == ['missing'] and dest in kwargs:
                        diffs.append(f'{dest}: model says not passed to the constructor, implementation passes {kwargs[dest]}')
                    if want != ['missing'] and kwargs.get(dest) != want:
                        diffs.append(f'constructor {dest}: model {want} implementation {kwargs.get(dest)}')
            repo = model_eff(ns['repository'], obs, files_content)
            if obs.get('loaded') != repo[1][0][1] or obs.get('backend', {}).get('conn') != repo[1][1]:
                diffs.append(f'backend: model {repo} implementation {obs.get("loaded")} {obs.get("backend", {}).get("conn")}')
            if diffs:
                rep.disagreements.append({'what': '; '.join(diffs)[:600], 'replay': label(case)})
    return results


RULE = ('one option (general, built-in backend, custom backend on the namespace-package path) set in one subset of its sources '
        '(command line, environment variable, profile, default section; none = built-in), distinct valid values per source incl. typed '
        'TOML values, one command of the 15; plus: the same string through each source alone, exclusive pairs in one / in different '
        'sources, refused values, and the double-coercion probe; every case is one fresh interpreter running main(); '
        'distinct = distinct (kind, backend, command, given values, selector, profile mode)')


def end_to_end(world, rep):
    """The real program, nothing replaced: `init` with the password from the environment / the profile at some verbosity, then
    `list-snapshots` at ANOTHER verbosity with the same password source must open the repository."""
    base = {'PATH': '/usr/bin:/bin', 'PYTHONHASHSEED': '0', 'PYTHONDONTWRITEBYTECODE': '1', 'LANG': 'C.UTF-8',
            'PYTHONPATH': f'{core.PYSHIM}:{core.REPO}', 'HOME': str(world.root / 'home')}
    kdf = ['--encryption.kdf.n', '4', '--encryption.kdf.r', '1', '--encryption.kdf.p', '1']
    k = 0
    for source in ('env', 'profile'):
        for v_init, v_ls in ((['-v'], []), ([], ['-vv']), (['-vv'], ['-v'])):
            k += 1
            d = world.root / f'e2e{k}'
            d.mkdir()
            env, cfg = dict(base), ['--ignore-config']
            if source == 'env':
                env['REPLICAT_PASSWORD'] = 'end-to-end secret'
            else:
                (d / 'c.toml').write_text('[p]\npassword = "end-to-end secret"\n')
                cfg = ['--config', str(d / 'c.toml'), '--profile', 'p']
            steps = [['init', '-r', str(d / 'repo'), '-o', str(d / 'key')] + cfg + v_init + kdf,
                     ['list-snapshots', '-r', str(d / 'repo'), '-K', str(d / 'key')] + cfg + v_ls]
            case = {'kind': 'end-to-end', 'password_source': source, 'steps': steps}
            rep.case(('end-to-end', source, v_init, v_ls), nontrivial=True)
            rep.count('end-to-end:runs')
            for argv in steps:
                p = subprocess.run([core.PY, '-m', 'replicat'] + argv, env=env, cwd=str(d), capture_output=True, text=True, timeout=300)
                if p.returncode != 0:
                    tail = (p.stderr.strip().splitlines() or ['?'])[-1]
                    rep.violations.append({'what': f'password from the {source}: `replicat {" ".join(steps[0])}` then `replicat {" ".join(steps[1])}`: '
                                                   f'{argv[0]} exits with status {p.returncode} ({tail[:120]})',
                                           'signature': {'kind': 'end_to_end', 'password_source': source}, 'replay': case})
                    break


def run(ctx) -> Report:
    rep = Report(rule=RULE)
    world = World(ctx)
    compare_tables(rep)
    thorough = ctx.tier == 'thorough'
    backends = ['pc', 's3c', 's3', 'pcl', 'local']
    cases = precedence_cases(world, ctx, backends, all_commands=thorough)
    cases += agreement_cases(world, ctx, ['pc', 's3c', 's3', 'pcl'])
    cases += invariance_cases(world, backends)
    cases += spelling_cases(world, ctx, ['pc', 's3', 'local'], None if thorough else 4)
    cases += secret_file_cases(world) + collision_cases(world)
    cases += exclusive_cases(world) + invalid_cases(world) + double_coercion_cases(world)
    check(world, cases, rep)
    end_to_end(world, rep)
    rep.extra['processes'] = len(cases)
    return rep


def search(ctx, broken) -> Report:
    """Model-free oracles over the full product (all commands), and the disagreeing cases again."""
    rep = Report(rule=RULE)
    world = World(ctx)
    backends = ['pc', 's3c', 's3', 'pcl', 'local']
    cases = precedence_cases(world, ctx, backends, all_commands=True)
    cases += agreement_cases(world, ctx, ['pc', 's3c', 's3', 'pcl']) + invariance_cases(world, backends) + exclusive_cases(world) + invalid_cases(world)
    cases += spelling_cases(world, ctx, ['pc', 's3', 'local'], None) + secret_file_cases(world) + collision_cases(world)
    check(world, cases, rep, with_model=False)
    return rep


def replay(ctx, obj):
    rep = Report(rule=RULE)
    world = World(ctx)
    r = obj.get('replay')
    items = r if isinstance(r, list) else [r]
    cases = []
    rows_by_backend = {b: {x['name']: x for x in world.rows(b)} for b in world.backends}
    for it in items:
        if not isinstance(it, dict) or 'given' not in it:
            print('replay file does not carry an options case:', obj.get('kind'))
            return 0
        given = []
        for n, s, v in it['given']:
            row = rows_by_backend[it['backend']][n]
            if row[{'cli': 'cli', 'env': 'env', 'prof': 'file', 'dflt': 'file'}[s]] == 'CoReadFile':
                v = world.files[(n, s)]          # the files of the original run are gone
            given.append((row, s, v))
        extra = [(rows_by_backend[it['backend']][n], s, v) for n, s, v in it.get('extra', [])]
        cases.append(world.make_case(it['backend'], it['command'], given, selector=it.get('selector', 'cli'),
                                     profile_mode=it.get('profile_mode', 0), kind=it.get('kind', 'precedence'), label='replay', extra=extra))
        if it.get('respell'):
            canon = list(it['respell'])[0]
            cases[-1].update(respell={canon: tuple(it['respell'][canon])}, verbose=it.get('verbose', 0), cfgid='replay', ref=False)
            if it.get('kind') == 'spelling':       # the full spelling of the same command line, to compare with
                ref = dict(cases[-1], respell={canon: (canon, 'sep')}, ref=True)
                cases.append(ref)
    results = check(world, cases, rep)
    for c, o in zip(cases, results):
        print('argv:', c['argv'], 'env:', c['env'], '->', o['status'], {n: o.get('args', {}).get(rows_by_backend[c['backend']][n]['dest']) for n, _, _ in c['given']})
    for v in rep.violations:
        print('VIOLATION-REPRODUCED', v['what'])
    for d in rep.disagreements:
        print('DISAGREEMENT-REPRODUCED', d['what'])
    if not rep.violations and not rep.disagreements:
        print('not reproduced on the current working tree')
    return 1 if rep.violations or rep.disagreements else 0
