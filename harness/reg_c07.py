from harness.reg_c02 import ENTRY as _E
ENTRY = dict(_E)
ENTRY['design_ref'] = 'DESIGN.md section 4 C07, section 3.4'
ENTRY['text'] = 'C07_objects_eq_referenced: for every crash-free history of snapshot/delete/clean by any users the chunk objects are exactly the chunks referenced by the remaining snapshots of their family, each once (Exact invariant, by induction over commands); C07_repeat_uploads_nothing / C07_present_uploads_nothing: data already present in the family transfers no payload; C07_table_once: one table entry per distinct digest. Real histories with heavy overlap: uploaded names == missing names, repeat snapshots upload nothing, lifted state == model state, no storage name shared across families.'
