"""Independent AWS Signature Version 4 verifier for S3, written from the published algorithm
("Signature Calculations for the Authorization Header: Transferring Payload in a Single Chunk (AWS Signature
Version 4)" and "Create a signed AWS API request").  Uses hashlib/hmac only - no replicat code, no urllib quoting.
It plays the role of the service: it sees only the bytes on the wire and the account's secret."""
import hashlib
import hmac

UNRESERVED = frozenset(b'ABCDEFGHIJKLMNOPQRSTUVWXYZabcdefghijklmnopqrstuvwxyz0123456789-_.~')
HEX = b'0123456789ABCDEF'


class Reject(Exception):
    """the request would be rejected; args[0] is a short machine-readable reason"""


def uri_encode(data: bytes, encode_slash=True) -> bytes:
    out = bytearray()
    for c in data:
        if c in UNRESERVED or (c == 0x2F and not encode_slash):
            out.append(c)
        else:
            out += bytes([0x25, HEX[c >> 4], HEX[c & 15]])
    return bytes(out)


def _hexval(c):
    if 48 <= c <= 57:
        return c - 48
    if 65 <= c <= 70:
        return c - 55
    if 97 <= c <= 102:
        return c - 87
    return None


def pct_decode(data: bytes, plus_is_space=False) -> bytes:
    out = bytearray()
    i = 0
    while i < len(data):
        c = data[i]
        if c == 0x25 and i + 2 < len(data):
            a, b = _hexval(data[i + 1]), _hexval(data[i + 2])
            if a is not None and b is not None:
                out.append(a * 16 + b)
                i += 3
                continue
        if c == 0x2B and plus_is_space:
            out.append(0x20)
        else:
            out.append(c)
        i += 1
    return bytes(out)


def canonical_uri(path: bytes) -> bytes:
    # S3: each path segment URI-encoded exactly once, no normalisation of the path
    return b'/'.join(uri_encode(pct_decode(seg)) for seg in path.split(b'/')) or b'/'


def canonical_query(query: bytes) -> bytes:
    if not query:
        return b''
    pairs = []
    for part in query.split(b'&'):
        if not part:
            continue
        name, _, value = part.partition(b'=')
        # the service decodes the query string the way HTML forms are decoded ('+' is a space)
        pairs.append((uri_encode(pct_decode(name, True)), uri_encode(pct_decode(value, True))))
    pairs.sort()
    return b'&'.join(n + b'=' + v for n, v in pairs)


def _trimall(v: bytes) -> bytes:
    return b' '.join(v.split(b' ')).strip() if b'  ' not in v else _trimall(v.replace(b'  ', b' '))


def parse_authorization(value: bytes):
    if not value.startswith(b'AWS4-HMAC-SHA256 '):
        raise Reject('authorization-algorithm')
    fields = {}
    for item in value[len(b'AWS4-HMAC-SHA256 '):].split(b','):
        k, eq, v = item.strip().partition(b'=')
        if not eq:
            raise Reject('authorization-syntax')
        fields[k] = v
    for k in (b'Credential', b'SignedHeaders', b'Signature'):
        if k not in fields:
            raise Reject('authorization-missing-' + k.decode())
    cred = fields[b'Credential'].split(b'/')
    if len(cred) < 5:
        raise Reject('credential-syntax')
    key_id = b'/'.join(cred[:-4])
    date, region, service, term = cred[-4:]
    return key_id, date, region, service, term, fields[b'SignedHeaders'].split(b';'), fields[b'Signature']


def verify(method: bytes, target: bytes, headers, body: bytes, *, secret: bytes, key_id: bytes, region: bytes,
           service: bytes = b's3', now: bytes = None):
    """headers: list of (name, value) byte pairs as sent.  Raises Reject(reason) or returns a dict with the
    canonical request and string to sign it computed."""
    low = {}
    for name, value in headers:
        low.setdefault(name.lower(), []).append(value)
    if b'authorization' not in low or len(low[b'authorization']) != 1:
        raise Reject('no-authorization')
    a_key, a_date, a_region, a_service, a_term, signed, signature = parse_authorization(low[b'authorization'][0])
    if a_key != key_id:
        raise Reject('unknown-access-key')
    if a_region != region or a_service != service or a_term != b'aws4_request':
        raise Reject('credential-scope')
    if signed != sorted(signed) or any(h != h.lower() for h in signed):
        raise Reject('signed-headers-not-sorted-lowercase')
    if b'host' not in signed:
        raise Reject('host-not-signed')
    for name in low:
        if name.startswith(b'x-amz-') and name not in signed:
            raise Reject('x-amz-header-not-signed:' + name.decode())
    for name in signed:
        if name not in low:
            raise Reject('signed-header-missing:' + name.decode())
    if b'x-amz-date' not in low:
        raise Reject('no-x-amz-date')
    amz_date = low[b'x-amz-date'][0]
    if len(amz_date) != 16 or amz_date[8:9] != b'T' or amz_date[15:16] != b'Z' or not (amz_date[:8] + amz_date[9:15]).isdigit():
        raise Reject('x-amz-date-format')
    if amz_date[:8] != a_date:
        raise Reject('credential-date-differs-from-x-amz-date')
    if now is not None and amz_date != now:
        raise Reject('request-time-differs-from-clock')
    if b'x-amz-content-sha256' not in low:
        raise Reject('no-x-amz-content-sha256')
    declared = low[b'x-amz-content-sha256'][0]
    if declared != hashlib.sha256(body).hexdigest().encode():
        raise Reject('payload-hash-differs-from-body')
    if b'content-length' in low and low[b'content-length'] != [str(len(body)).encode()]:
        raise Reject('content-length-differs-from-body')
    path, _, query = target.partition(b'?')
    canonical_headers = b''.join(name + b':' + b','.join(_trimall(v) for v in low[name]) + b'\n' for name in signed)
    creq = b'\n'.join([method, canonical_uri(path), canonical_query(query), canonical_headers, b';'.join(signed), declared])
    scope = b'/'.join([a_date, region, service, b'aws4_request'])
    sts = b'\n'.join([b'AWS4-HMAC-SHA256', amz_date, scope, hashlib.sha256(creq).hexdigest().encode()])
    k = b'AWS4' + secret
    for part in (a_date, region, service, b'aws4_request'):
        k = hmac.new(k, part, hashlib.sha256).digest()
    expect = hmac.new(k, sts, hashlib.sha256).hexdigest().encode()
    if not hmac.compare_digest(expect, signature):
        raise Reject('signature-mismatch')
    return {'canonical_request': creq, 'string_to_sign': sts}
