"""C09 - snapshot and restore do not depend on scheduling.
Implementation side: (a) a gated backend whose pending calls are completed in an order chosen by the
harness (all permutations for tiny configurations, seeded random otherwise), coroutine and plain
flavours, with in-flight accounting; (b) `replicat.repository.threading` replaced by a proxy whose
locks rendezvous at release, which forces the "two loaders finish the last two chunks of one file
together" schedule; (c) failure injection at any call.  Observables compared with a sequential run
(concurrency 1, no gating) and with the consequences of the theorems of Props/C09.v."""
from __future__ import annotations

import asyncio
import contextlib
import io
import itertools
import json
import os
import random
import shutil
import sys
import threading
import time
from pathlib import Path

from harness import core
from harness.core import Report
from replicat.backends.base import Backend

RULE = ('cases = (file tree, chunk sizes, concurrency N in 1..5, backend flavour coroutine/plain, completion order of pending backend calls: '
        'every permutation prefix for <= 4 pending calls else seeded random choice at every step, optional injected failure at call k, lock '
        'rendezvous on/off); observables: manifest, restored bytes, files finalised exactly once, max outstanding transfers <= N, slots back to N, '
        'termination within a timeout, the error raised is the injected one; compared with the sequential run; '
        'non-trivial = at least 3 backend transfers pending concurrently at some point or a rendezvous actually happened; distinct = distinct case description')


# --------------------------------------------------------------------------- gated backends
class Gate:
    """Pending transfers wait here; pick(rng) releases one of them."""

    def __init__(self):
        self.pending = []        # (label, release callable)
        self.outstanding = 0
        self.max_outstanding = 0
        self.max_pending = 0
        self.order = []
        self.lock = threading.Lock()
        self.fail_at = None
        self.fail_from = None      # backend down: this call and every later one fails
        self.entered = 0

    def enter(self, label):
        with self.lock:
            self.outstanding += 1
            self.max_outstanding = max(self.max_outstanding, self.outstanding)
            idx = self.entered
            self.entered += 1
        return idx

    def leave(self):
        with self.lock:
            self.outstanding -= 1


class InjectedFailure(Exception):
    pass


class InjectedTimeout(TimeoutError):
    """what a deadline inside a coroutine backend raises: the BUILT-IN TimeoutError (asyncio.TimeoutError, socket.timeout and
    concurrent.futures.TimeoutError are all that class on Python >= 3.11)"""


class GatedAsync(Backend):
    def __init__(self, gate: Gate, objects=None):
        self.gate, self.objects = gate, objects if objects is not None else {}

    async def _gate(self, label):
        idx = self.gate.enter(label)
        try:
            if not getattr(self.gate, 'open', False):
                ev = asyncio.Event()
                self.gate.pending.append((label, ev.set))
                self.gate.max_pending = max(self.gate.max_pending, len(self.gate.pending))
                await ev.wait()
            self.gate.order.append(label)
            if (self.gate.fail_at is not None and idx == self.gate.fail_at) or (self.gate.fail_from is not None and idx >= self.gate.fail_from):
                raise (InjectedTimeout if getattr(self.gate, 'fail_kind', 'injected') == 'timeout' else InjectedFailure)(label)
        except BaseException:
            self.gate.leave()
            raise

    async def exists(self, name):
        await self._gate('exists ' + name[-6:])
        try:
            r = name in self.objects
            if r and getattr(self, 'on_done', None):
                self.on_done(name)
            return r
        finally:
            self.gate.leave()

    async def upload(self, name, data):
        await self._gate('upload ' + name[-6:])
        try:
            self.objects[name] = bytes(data)
        finally:
            self.gate.leave()

    async def upload_stream(self, name, stream, length, chunk_size=128_000):
        await self._gate('put ' + name[-6:])
        try:
            buf = bytearray()
            while piece := stream.read(chunk_size):
                buf += piece
            self.objects[name] = bytes(buf)
            if getattr(self, 'on_done', None):
                self.on_done(name)
        finally:
            self.gate.leave()

    async def download(self, name):
        await self._gate('download ' + name[-6:])
        try:
            return self.objects[name]
        finally:
            self.gate.leave()

    async def download_stream(self, name, stream, chunk_size=128_000):
        await self._gate('get ' + name[-6:])
        try:
            data = self.objects[name]
            stream.truncate(len(data))
            for i in range(0, len(data), chunk_size):
                stream.write(data[i:i + chunk_size])
        finally:
            self.gate.leave()

    async def list_files(self, prefix=''):
        for n in sorted(n for n in self.objects if n.startswith(prefix)):
            yield n

    async def delete(self, name):
        await self._gate('delete ' + name[-6:])
        try:
            self.objects.pop(name, None)
        finally:
            self.gate.leave()


class GatedPlain(Backend):
    def __init__(self, gate: Gate, objects=None):
        self.gate, self.objects = gate, objects if objects is not None else {}

    def _gate(self, label):
        idx = self.gate.enter(label)
        try:
            if not getattr(self.gate, 'open', False):
                ev = threading.Event()
                with self.gate.lock:
                    self.gate.pending.append((label, ev.set))
                    self.gate.max_pending = max(self.gate.max_pending, len(self.gate.pending))
                if not ev.wait(30):
                    raise TimeoutError('gate never released')
            self.gate.order.append(label)
            if (self.gate.fail_at is not None and idx == self.gate.fail_at) or (self.gate.fail_from is not None and idx >= self.gate.fail_from):
                raise (InjectedTimeout if getattr(self.gate, 'fail_kind', 'injected') == 'timeout' else InjectedFailure)(label)
        except BaseException:
            self.gate.leave()
            raise

    def exists(self, name):
        self._gate('exists ' + name[-6:])
        try:
            r = name in self.objects
            if r and getattr(self, 'on_done', None):
                self.on_done(name)
            return r
        finally:
            self.gate.leave()

    def upload(self, name, data):
        self._gate('upload ' + name[-6:])
        try:
            self.objects[name] = bytes(data)
        finally:
            self.gate.leave()

    def upload_stream(self, name, stream, length, chunk_size=128_000):
        self._gate('put ' + name[-6:])
        try:
            buf = bytearray()
            while piece := stream.read(chunk_size):
                buf += piece
            self.objects[name] = bytes(buf)
            if getattr(self, 'on_done', None):
                self.on_done(name)
        finally:
            self.gate.leave()

    def download(self, name):
        self._gate('download ' + name[-6:])
        try:
            return self.objects[name]
        finally:
            self.gate.leave()

    def download_stream(self, name, stream, chunk_size=128_000):
        self._gate('get ' + name[-6:])
        try:
            data = self.objects[name]
            stream.truncate(len(data))
            for i in range(0, len(data), chunk_size):
                stream.write(data[i:i + chunk_size])
        finally:
            self.gate.leave()

    def list_files(self, prefix=''):
        return sorted(n for n in self.objects if n.startswith(prefix))

    def delete(self, name):
        self._gate('delete ' + name[-6:])
        try:
            self.objects.pop(name, None)
        finally:
            self.gate.leave()


class PipeLog:
    """event log of the snapshot pipeline: P(counter) inside Queue._put, G(counter) inside Queue._get (both under the queue's
    own mutex, so their order is the real order), F(counter) when the backend work for the chunk a worker holds completes"""

    def __init__(self):
        self.lock = threading.Lock()
        self.events = []
        self.cap = None
        self.held = {}          # location -> counters taken off the queue and not yet completed

    def module(self):
        import queue as _queue
        log = self

        class LoggedQueue(_queue.Queue):
            def __init__(self, maxsize=0):
                super().__init__(maxsize)
                log.cap = maxsize

            def _put(self, item):
                super()._put(item)
                with log.lock:
                    log.events.append(('P', item.counter))

            def _get(self):
                item = super()._get()
                with log.lock:
                    log.events.append(('G', item.counter))
                    log.held.setdefault(item.location, []).append(item.counter)
                return item

        class QueueModule:
            Queue = LoggedQueue
            Empty, Full = _queue.Empty, _queue.Full

            def __getattr__(self, name):
                return getattr(_queue, name)
        return QueueModule()

    def finished(self, location):
        with self.lock:
            l = self.held.get(location)
            if l:
                self.events.append(('F', l.pop(0)))


async def drive(gate: Gate, task: asyncio.Future, chooser, settle=0.004):
    """Release pending calls one at a time, in the order `chooser(n_pending)` dictates, letting the
    system settle in between so that as many calls as the code allows become pending."""
    idle = 0
    while not task.done():
        await asyncio.sleep(settle)
        with gate.lock:
            n = len(gate.pending)
        if n == 0:
            idle += 1
            if idle > 5000:
                raise TimeoutError('no progress')
            continue
        idle = 0
        # wait a little more for further calls to arrive (stability)
        for _ in range(3):
            await asyncio.sleep(settle)
            with gate.lock:
                m = len(gate.pending)
            if m == n:
                break
            n = m
        with gate.lock:
            k = chooser(len(gate.pending))
            label, release = gate.pending.pop(k)
        release()
    # release whatever is left (failure paths leave calls pending)
    for _ in range(200):
        with gate.lock:
            left = list(gate.pending)
            gate.pending.clear()
        for _, release in left:
            release()
        await asyncio.sleep(0.002)
        if not left:
            break


# --------------------------------------------------------------------------- lock proxy with rendezvous
class RendezvousThreading:
    """Stand-in for the `threading` module inside replicat.repository: Lock objects whose release is
    followed by a short rendezvous with any other thread releasing at about the same time, so that
    two threads leave their critical sections together (the schedule in which a check performed
    after the critical section sees the other thread's update)."""

    def __init__(self, enabled=True, window=0.02):
        self.enabled, self.window = enabled, window
        self.cv = threading.Condition()
        self.waiting = 0
        self.met = 0
        self.fin_log = []

    def __getattr__(self, name):
        return getattr(threading, name)

    def Lock(self):
        outer = self

        class L:
            def __init__(self):
                self._l = threading.Lock()

            def acquire(self, *a, **k):
                return self._l.acquire(*a, **k)

            def release(self):
                self._l.release()
                if outer.enabled:
                    outer.rendezvous()

            def locked(self):
                return self._l.locked()

            def __enter__(self):
                self._l.acquire()
                return self

            def __exit__(self, *exc):
                # still inside the critical section: when it is the one of restore's _download_chunk that removes a digest
                # from a file's outstanding set, record (file, digest, decided-finished) - the order of these records is
                # the order of the critical sections
                f = sys._getframe(1)
                if f.f_code.co_name == '_download_chunk' and exc[0] is None:
                    loc = f.f_locals
                    if 'file_path' in loc and 'digest' in loc:
                        outer.fin_log.append((loc['file_path'], loc['digest'].hex(), bool(loc.get('finished'))))
                self.release()
        return L()

    def rendezvous(self):
        with self.cv:
            if self.waiting:
                self.met += 1
                self.cv.notify_all()
                return
            self.waiting += 1
            self.cv.wait(self.window)
            self.waiting -= 1


# --------------------------------------------------------------------------- cases
def gen_case(rng):
    mx = rng.choice([16, 32, 64])
    mn = rng.choice([4, mx // 4, mx // 2, mx])
    nfiles = rng.choice([1, 1, 2, 3, 5])
    files = []
    shared = rng.randbytes(50)
    for i in range(nfiles):
        size = rng.choice([0, 1, mx - 1, mx, 2 * mx, 2 * mx + 3, 3 * mx, 5 * mx + 1])
        kind = rng.choice(['rand', 'rand', 'same', 'zero'])
        files.append({'size': size, 'kind': kind})
    return {'mn': mn, 'mx': mx, 'files': files, 'content_seed': rng.randint(0, 2 ** 31), 'N': rng.choice([1, 2, 2, 3, 5]),
            'flavour': rng.choice(['async', 'plain']), 'order_seed': rng.randint(0, 2 ** 31), 'encrypted': rng.random() < 0.5,
            'fail_at': rng.choice([None, None, None, 0, 1, 2, 3, 5, 8]), 'fail_phase': rng.choice(['snapshot', 'restore']),
            'rendezvous': rng.random() < 0.6, 'mode': 'random',
            # what an injected backend failure looks like (the built-in TimeoutError is what deadlines of coroutine backends raise)
            'fail_kind': rng.choice(['injected', 'injected', 'timeout']),
            # the chunk producer's own failure: a source file vanishes while the stream is being read
            'producer_fail': nfiles >= 2 and rng.random() < 0.15,
            # a file-writer thread's own failure during restore: one write into the target fails (EIO) while every backend call succeeds
            'writer_fail': rng.choice([None, None, None, None, None, 0, 1, 2, 3])}


def make_tree(case, root: Path):
    rng = random.Random(case['content_seed'])
    shared = rng.randbytes(64)
    out = {}
    root.mkdir(parents=True)
    for i, f in enumerate(case['files']):
        if f['kind'] == 'zero':
            content = bytes(f['size'])
        elif f['kind'] == 'same':
            content = (shared * (f['size'] // 64 + 1))[:f['size']]
        else:
            content = rng.randbytes(f['size'])
        p = root / f'f{i}'
        p.write_bytes(content)
        os.utime(p, ns=(10 ** 18 + i, 10 ** 18 + 7 * i))
        out[str(p.resolve())] = content
    return out


def canon_manifest(snap):
    files = {}
    for f in snap.data['files']:
        refs = sorted(([r['range'][0], r['range'][1], r['counter'], snap.chunks[r['index']].hex()] for r in f['chunks']
                       if r['range'][1] > r['range'][0]), key=lambda r: r[2])
        files[f['path']] = {'refs': refs, 'digest': f['digest'].hex() if f['digest'] else None,
                            'mtime': f['metadata']['st_mtime_ns'] if f['metadata'] else None}
    return {'files': files, 'table': [d.hex() for d in snap.chunks]}


def run_case(case, wd: Path, chooser_factory):
    """returns observation dict; raises only on harness errors"""
    import replicat.repository as R
    from replicat.repository import Repository
    tree = make_tree(case, wd / 'src')
    settings = {'chunking': {'min_length': case['mn'], 'max_length': case['mx']}, 'hashing': {'name': 'blake2b', 'length': 16}}
    settings['encryption'] = {'kdf': {'name': 'scrypt', 'n': 4, 'r': 1, 'p': 1}} if case['encrypted'] else None
    password = b'pw' if case['encrypted'] else None
    N = case['N']
    obs = {'problems': []}

    async def sequential():
        from harness.memstore import MemBackend
        b = MemBackend()
        r = Repository(b, concurrent=1, quiet=True, cache_directory=None)
        init = await r.init(password=password, settings=json.loads(json.dumps(settings)))
        r2 = Repository(b, concurrent=1, quiet=True, cache_directory=None)
        await r2.unlock(password=password, key=init.key)
        snap = await r2.snapshot(paths=[wd / 'src'])
        return b, init, canon_manifest(snap)

    async def gated():
        b0, init, seq_manifest = await sequential()
        # same repository (same keys); start from config only so that chunks are uploaded again
        objects = {'config': b0.objects['config']}
        gate = Gate()
        backend = GatedAsync(gate, objects) if case['flavour'] == 'async' else GatedPlain(gate, objects)
        chooser = chooser_factory()
        finalised = []
        orig_meta = R.Repository.restore_metadata

        mine = str((wd / 'out').resolve())

        def counting_meta(self, path, metadata, /):
            # loader threads left over from an EARLIER case (a failed restore does not stop them) also come through the
            # patched class attribute: count only finalisations under this case's own target directory
            if str(path).startswith(mine):
                finalised.append(str(path))
            return orig_meta(self, path, metadata)

        proxy = RendezvousThreading(enabled=case['rendezvous'])
        orig_threading = R.threading
        R.threading = proxy
        R.Repository.restore_metadata = counting_meta
        try:
            # ---- unlock (1 download) then snapshot
            repo = Repository(backend, concurrent=N, quiet=True, cache_directory=None)
            obs['slot_traces'] = []
            tr1 = []
            obs['slot_traces'].append(tr1)
            log_slots(repo, N, tr1)
            t = asyncio.ensure_future(repo.unlock(password=password, key=init.key))
            await asyncio.wait_for(drive(gate, t, chooser), 60)
            await t
            gate.entered = 0
            gate.fail_kind = case.get('fail_kind', 'injected')
            gate.fail_at = case['fail_at'] if case['fail_phase'] == 'snapshot' else None
            gate.fail_from = case.get('down_from') if case['fail_phase'] == 'snapshot' else None
            producer_fail = bool(case.get('producer_fail')) and gate.fail_at is None and gate.fail_from is None
            orig_read_metadata = R.Repository.read_metadata
            if producer_fail:
                victims = sorted((wd / 'src').rglob('*'))
                victims = [v for v in victims if v.is_file()]
                fired = []

                def vanishing(self_, file, _victims=victims, _fired=fired):
                    # runs on the chunk-producer thread after a file has been read: the file that would be read LAST disappears now
                    if not _fired:
                        _fired.append(1)
                        import os as _os
                        for v in _victims:
                            try:
                                if _os.fstat(file).st_ino != v.stat().st_ino:
                                    last = v
                            except OSError:
                                pass
                        try:
                            last.unlink()
                        except Exception:
                            pass
                    return orig_read_metadata(self_, file)
                R.Repository.read_metadata = vanishing
            plog = PipeLog()
            saved_queue = R.queue
            R.queue = plog.module()
            backend.on_done = plog.finished
            t = asyncio.ensure_future(repo.snapshot(paths=[wd / 'src']))
            try:
                try:
                    await asyncio.wait_for(drive(gate, t, chooser), 25)
                finally:
                    R.queue = saved_queue
                    backend.on_done = None
                    R.Repository.read_metadata = orig_read_metadata
            except (asyncio.TimeoutError, TimeoutError):
                obs['problems'].append(('snapshot does not terminate under this completion order', 'hang'))
                t.cancel()
                return
            snap_exc = t.exception()
            if producer_fail:
                # sequential semantics: the stream cannot be read to its end, so the command fails and stores no snapshot
                await _slots_back(repo, N, obs, 'snapshot', gate)
                if snap_exc is None and not all(v.exists() for v in victims):
                    obs['problems'].append(('a source file vanished while the chunk producer was reading the stream, yet snapshot reported success '
                                            '(the producer thread\'s failure was lost)', 'swallowed'))
                elif snap_exc is not None and not isinstance(snap_exc, OSError):
                    obs['problems'].append((f'snapshot raised {type(snap_exc).__name__} when a source file vanished (expected the OSError)', 'spurious_error'))
                if snap_exc is not None and any(n.startswith('snapshots/') for n in objects):
                    obs['problems'].append(('a failed snapshot left a snapshot object', 'partial'))
                obs['producer_fail'] = True
                return
            obs['snapshot_max_outstanding'] = gate.max_outstanding
            obs['max_pending'] = gate.max_pending
            await _slots_back(repo, N, obs, 'snapshot', gate)
            injected = (gate.fail_at is not None and gate.entered > gate.fail_at) or (gate.fail_from is not None and gate.entered > gate.fail_from)
            if snap_exc is not None:
                if not (injected and isinstance(snap_exc, (InjectedFailure, InjectedTimeout))):
                    obs['problems'].append((f'snapshot raised {type(snap_exc).__name__}: {str(snap_exc)[:100]} '
                                            f'({"an injected failure was pending" if injected else "no failure was injected"})', 'spurious_error'))
                if any(n.startswith('snapshots/') for n in objects):
                    obs['problems'].append(('a failed snapshot left a snapshot object', 'partial'))
                return
            if injected:
                obs['problems'].append(('a backend call failed but snapshot reported success', 'swallowed'))
                return
            gate.fail_from = None
            obs['pipe_trace'] = (plog.cap, list(plog.events))
            t_snapshot_result = t.result()
            manifest = canon_manifest(t_snapshot_result)
            if manifest != seq_manifest:
                obs['problems'].append(('snapshot manifest differs from the sequential run', 'manifest'))
            obs['chunks'] = len(manifest['table'])
            # ---- restore
            gate.max_outstanding = 0
            gate.entered = 0
            gate.fail_at = case['fail_at'] if case['fail_phase'] == 'restore' else None
            repo2 = Repository(backend, concurrent=N, quiet=True, cache_directory=None)
            tr2 = []
            obs['slot_traces'].append(tr2)
            log_slots(repo2, N, tr2)
            gate.fail_at, keep = None, gate.fail_at
            t = asyncio.ensure_future(repo2.unlock(password=password, key=init.key))
            await asyncio.wait_for(drive(gate, t, chooser), 60)
            await t
            gate.entered = 0
            gate.fail_at = keep
            out = wd / 'out'
            out.mkdir()
            # two writer threads that are about to create the same directory do it at the same moment
            orig_mkdir = os.mkdir
            mk_cv, mk_wait = threading.Condition(), {}

            def mkdir_together(path, *a, **k):
                key = os.fspath(path)
                if case['rendezvous'] and str(key).startswith(mine):
                    with mk_cv:
                        if mk_wait.get(key):
                            mk_wait[key] = 0
                            mk_cv.notify_all()
                        else:
                            mk_wait[key] = 1
                            mk_cv.wait(0.01)
                            mk_wait.pop(key, None)
                return orig_mkdir(path, *a, **k)
            os.mkdir = mkdir_together
            writer_fail = case.get('writer_fail') if gate.fail_at is None and not case.get('producer_fail') else None
            orig_wfp, wf_count, wf_fired = R.Repository._write_file_part, [0], []
            if writer_fail is not None:
                wf_lock = threading.Lock()

                def failing_write(self_, path, data, offset, _orig=orig_wfp):
                    with wf_lock:
                        idx = wf_count[0]
                        wf_count[0] += 1
                    if idx == writer_fail:
                        wf_fired.append(1)
                        raise OSError(5, 'injected write failure in a file-writer thread')
                    return _orig(self_, path, data, offset)
                R.Repository._write_file_part = failing_write
            t = asyncio.ensure_future(repo2.restore(path=out))
            try:
                await asyncio.wait_for(drive(gate, t, chooser), 25)
            except (asyncio.TimeoutError, TimeoutError):
                obs['problems'].append(('restore does not terminate under this completion order', 'hang'))
                t.cancel()
                return
            finally:
                os.mkdir = orig_mkdir
                R.Repository._write_file_part = orig_wfp
            exc = t.exception()
            if wf_fired:
                # sequential semantics: a part of a file could not be written, so the command fails (with that error)
                obs['writer_fail'] = True
                # the command has failed; what its remaining loader jobs still ask of the backend is answered with an error at once (they
                # are not driven any further by this harness and must not be left waiting in the gate with a slot in hand)
                gate.fail_from = 0
                await _slots_back(repo2, N, obs, 'restore', gate)
                if exc is None:
                    obs['problems'].append(('a write into a restored file failed (EIO in a file-writer thread) yet restore reported success: the file is left with a hole', 'swallowed'))
                elif not isinstance(exc, OSError):
                    obs['problems'].append((f'restore raised {type(exc).__name__} when a file write failed (expected the OSError)', 'spurious_error'))
                return
            obs['restore_max_outstanding'] = gate.max_outstanding
            obs['rendezvous_met'] = proxy.met
            await _slots_back(repo2, N, obs, 'restore', gate)
            injected = gate.fail_at is not None and gate.entered > gate.fail_at
            if exc is not None:
                if not (injected and isinstance(exc, (InjectedFailure, InjectedTimeout))):
                    obs['problems'].append((f'restore raised {type(exc).__name__}: {str(exc)[:100]} '
                                            f'({"an injected failure was pending" if injected else "no failure was injected"})', 'spurious_error'))
                return
            if injected:
                obs['problems'].append(('a backend call failed but restore reported success', 'swallowed'))
                return
            for path, content in tree.items():
                tpath = Path(out, *Path(path).parts[1:])
                if not tpath.is_file() or tpath.read_bytes() != content:
                    obs['problems'].append(('restored bytes differ from the source under this schedule', 'content'))
                    break
                if tpath.stat().st_mtime_ns != os.stat(path).st_mtime_ns:
                    obs['problems'].append(('modification time not restored under this schedule', 'mtime'))
                    break
            plan = {}
            for fd in t_snapshot_result.data['files']:
                ds = sorted({t_snapshot_result.chunks[r['index']].hex() for r in fd['chunks']})
                if ds:
                    plan[fd['path']] = ds
            obs['fin_trace'] = (plan, list(proxy.fin_log))
            want = sorted(str(Path(out, *Path(p).parts[1:]).resolve()) for p in tree)
            if sorted(finalised) != want:
                obs['problems'].append((f'files finalised {len(finalised)} time(s) for {len(want)} file(s) (each must be finalised exactly once)', 'finalise'))
            obs['finalised'] = len(finalised)
        finally:
            R.threading = orig_threading
            R.Repository.restore_metadata = orig_meta

    with contextlib.redirect_stdout(io.StringIO()), contextlib.redirect_stderr(io.StringIO()):
        asyncio.run(gated())
    return obs


def log_slots(repo, N, trace):
    """replace the repository's slot queue by one that records every token taken ('A') and put back ('R')"""
    class LoggingQueue(asyncio.PriorityQueue):
        _loop_thread = None

        async def get(self):
            self._loop_thread = threading.get_ident()
            item = await super().get()
            trace.append(['A', item])
            return item

        def empty(self):
            # the event loop looks at the pool, finds it empty and only THEN registers the waiter: widen that instant a little.
            # A token put back through the loop (call_soon_threadsafe) cannot fall into it; one put back from another thread can.
            e = super().empty()
            if e and self._started and threading.get_ident() == self._loop_thread:
                self._window.set()
                time.sleep(0.002)
                self._window.clear()
            return e

        def put_nowait(self, item):
            if self._started:
                trace.append(['R', item])
            return super().put_nowait(item)
    LoggingQueue._window = threading.Event()
    q = LoggingQueue(maxsize=N)
    q._started = False
    for slot in range(2, N + 2):
        q.put_nowait(slot)
    q._started = True
    repo._slots = q


async def _slots_back(repo, N, obs, phase, gate):
    """after success or failure every slot must come back; calls still in flight (the other workers of
    a failed command keep going until they notice) are let through meanwhile"""
    # the phase is over (the command returned or raised): what its remaining jobs still ask of the backend passes the gate at once,
    # and the pool must stay complete for a while (jobs that were still queued in a thread pool take and return their slots meanwhile)
    gate.open = True
    quiet = 0
    try:
        for _ in range(600):
            with gate.lock:
                left = list(gate.pending)
                gate.pending.clear()
            for _, release in left:
                release()
            quiet = quiet + 1 if (not left and repo._slots.qsize() == N) else 0
            if quiet >= 8:
                return
            await asyncio.sleep(0.005)
        obs['problems'].append((f'after {phase}: {repo._slots.qsize()} of {N} connection slots available', 'slots'))
    finally:
        gate.open = False


_WD_COUNTER = itertools.count()


def _enough_hangs(rep):
    # every hanging case costs its whole time limit: once a few are on record, the remaining cases of a run add nothing
    if rep.extra.get('_loop_blocked'):
        return True
    return sum(1 for v in rep.violations if v.get('signature', {}).get('kind') == 'hang') >= 3


def check(case, ctx, rep: Report, chooser_factory, tag):
    if _enough_hangs(rep):
        return
    # a fresh directory every time: straggler threads of an earlier failed restore may still create files under the old one
    wd = ctx.scratch / f'c09-{tag}-{next(_WD_COUNTER)}'
    # the case runs in its own thread (own event loop): if the loop thread itself gets blocked (no time-out inside the loop can fire
    # then), the main thread still notices
    box = {}

    def target():
        try:
            box['obs'] = run_case(case, wd, chooser_factory)
        except BaseException as e:               # harness error: re-raised in the main thread
            box['err'] = e
    th = threading.Thread(target=target, name=f'c09-case-{tag}', daemon=True)
    th.start()
    th.join(90)
    if th.is_alive():
        sys.stdout, sys.stderr = sys.__stdout__, sys.__stderr__      # the blocked case still holds its output redirection
        rep.case(case, nontrivial=True)
        rep.violations.append({'what': 'the command does not terminate and the event loop itself is blocked (no time-out inside the loop fires): '
                                       f'snapshot + restore with N={case["N"]}, {case["flavour"]} backend, failure injected at call {case["fail_at"]} of {case["fail_phase"]}',
                               'signature': {'kind': 'hang', 'flavour': case['flavour'], 'loop': 'blocked'}, 'replay': case})
        rep.extra['_loop_blocked'] = True     # patches installed by the blocked case are still in place: nothing more can be run here
        return
    shutil.rmtree(wd, ignore_errors=True)
    if 'err' in box:
        raise box['err']
    obs = box['obs']
    N = case['N']
    for key in ('snapshot_max_outstanding', 'restore_max_outstanding'):
        if obs.get(key, 0) > N:
            obs['problems'].append((f'{obs[key]} backend transfers outstanding with concurrency {N}', 'too_many_outstanding'))
    nontrivial = obs.get('max_pending', 0) >= 3 or obs.get('rendezvous_met', 0) > 0
    rep.case(case, nontrivial=nontrivial)
    rep.count(f'N={N}')
    rep.count('flavour=' + case['flavour'])
    rep.count('fail=' + ('down' if case.get('down_from') is not None else 'none' if case['fail_at'] is None else case['fail_phase']))
    rep.count('rendezvous_met', obs.get('rendezvous_met', 0))
    if obs.get('writer_fail'):
        rep.count('writer_failure_cases')
    if obs.get('producer_fail'):
        rep.count('producer_failure_cases')
    rep.count('fail_kind=' + str(case.get('fail_kind', 'injected')))
    if obs.get('fin_trace'):
        rep.extra.setdefault('_fin_traces', []).append((obs['fin_trace'][0], obs['fin_trace'][1], case))
    if obs.get('pipe_trace'):
        rep.extra.setdefault('_pipe_traces', []).append((obs['pipe_trace'][0], obs['pipe_trace'][1], case))
    for tr in obs.get('slot_traces', []):
        rep.extra.setdefault('_slot_traces', []).append((N, tr, case))
    rep.sample({'case': {k: case[k] for k in ('mn', 'mx', 'N', 'flavour', 'fail_at', 'fail_phase', 'rendezvous', 'mode')},
                'files': case['files'], 'observed': {k: v for k, v in obs.items() if k != 'problems'}})
    for what, kind in obs['problems']:
        rep.violations.append({'what': what, 'signature': {'kind': kind, 'flavour': case['flavour']}, 'replay': case})


def backend_down_case(k):
    """many chunks (more than the queue holds), the backend goes down for good at some call: every worker dies while the
    producer thread is blocked on the full queue; snapshot must still end with the backend's error"""
    N = 1 + k % 2
    return {'mn': 16, 'mx': 16, 'files': [{'size': 16 * (14 * N + 6 + k), 'kind': 'rand'}], 'content_seed': 500 + k, 'N': N,
            'flavour': ['plain', 'async'][(k // 2) % 2], 'order_seed': k, 'encrypted': False, 'fail_at': None, 'down_from': 1 + k % 3,
            'fail_phase': 'snapshot', 'rendezvous': False, 'mode': 'backend-down'}


def many_chunks_case(k):
    """no fault at all: more chunks than the producer/worker queue holds (10 per connection) at N = 1 and 2, plain and coroutine
    backends - the chunk producer must never be able to starve the backend calls of the workers that drain its queue"""
    N = 1 + k % 2
    return {'mn': 16, 'mx': 16, 'files': [{'size': 16 * (13 * N + 9 + k), 'kind': 'rand'}, {'size': 40, 'kind': 'rand'}], 'content_seed': 700 + k, 'N': N,
            'flavour': ['plain', 'plain', 'async'][k % 3], 'order_seed': k, 'encrypted': bool(k % 2), 'fail_at': None, 'fail_phase': 'restore',
            'rendezvous': False, 'mode': 'many-chunks'}


def forced_race_case(k):
    """one file of exactly two chunks, concurrency 2, rendezvous on: both loaders finish together"""
    return {'mn': 64, 'mx': 64, 'files': [{'size': 128, 'kind': 'rand'}] * (1 + k % 2), 'content_seed': 1000 + k, 'N': 2,
            'flavour': ['plain', 'async'][k % 2], 'order_seed': k, 'encrypted': bool(k % 3 == 0), 'fail_at': None, 'fail_phase': 'restore',
            'rendezvous': True, 'mode': 'forced-race'}


def validate_slot_traces(rep: Report):
    """the token traces recorded on the real slot queues must be accepted by Model/Sched.slot_trace (vm_compute):
    every acquisition takes a free token, every release returns a token that is out, at most N are out, all N are back"""
    traces = rep.extra.pop('_slot_traces', [])
    if not traces:
        return
    per = 120
    jobs = []
    for i in range(0, len(traces), per):
        L = ['From Coq Require Import List Arith.', 'From Replicat Require Import Model.Sched.', 'Import ListNotations.',
             'Definition cases : list (list nat * list sev) := [']
        items = []
        for N, tr, _ in traces[i:i + per]:
            evs = '; '.join(('EAcq %d' if k == 'A' else 'ERel %d') % t for k, t in tr)
            items.append('  (%s, [%s])' % (core.coq_nat_list(range(2, N + 2)), evs))
        L.append(';\n'.join(items))
        L.append('].')
        L.append('Eval vm_compute in map (fun c => match slot_trace (fst c) (snd c) 0 0 with Some (f, h, m) => (1, length f, h, m) | None => (0, 0, 0, 0) end) cases.')
        jobs.append((f'c09_slots_{i // per}', '\n'.join(L) + '\n'))
    res = core.coq_eval_files(jobs)
    out = []
    for name, _ in jobs:
        rc, text = res[name]
        if rc != 0:
            rep.disagreements.append({'what': 'the slot model could not be evaluated: ' + text[-800:], 'replay': None})
            return
        out += core.parse_coq_term(core.parse_coq_values(text)[-1])
    for (N, tr, case), (ok, nfree, held, mx) in zip(traces, out):
        rep.traces_validated += 1
        if not ok:
            rep.disagreements.append({'what': f'a slot trace of the implementation is not a trace of the model (a token taken twice or returned twice): {tr[:12]}...',
                                      'replay': case})
        elif held != 0 or nfree != N:
            rep.violations.append({'what': f'{N - nfree} of {N} connection slots were never returned', 'signature': {'kind': 'slots', 'flavour': case['flavour']},
                                   'replay': case})
        elif mx > N:
            rep.violations.append({'what': f'{mx} slots out at once with concurrency {N}', 'signature': {'kind': 'too_many_outstanding', 'flavour': case['flavour']},
                                   'replay': case})
    rep.count('slot_events_validated', sum(len(tr) for _, tr, _ in traces))


def lost_wakeup_probe(ctx, rep: Report):
    """The connection-slot pool is an asyncio queue: it may only be touched from the event-loop thread.  Forced schedule for the
    restore path (one slot, two loader threads, several chunks): a loader thread that has a request for a slot holds it back until
    the current holder is about to give its slot back; a slot that is handed back by a thread OTHER than the loop's is made to land
    between the loop's look at the empty pool and the registration of the waiter.  Tokens handed back through the loop (the
    unchanged code) never get into that position; restore must end and reproduce the file."""
    import replicat.repository as R
    from replicat.repository import Repository
    from harness.memstore import MemBackend
    for trial in range(2):
        wd = ctx.scratch / f'c09-lost-wakeup-{trial}-{next(_WD_COUNTER)}'
        (wd / 'src').mkdir(parents=True)
        data = ctx.rng.randbytes(64 * 2)           # exactly two chunks: nobody hands a slot back after the second request
        (wd / 'src' / 'f').write_bytes(data)
        about_to_put, window = threading.Event(), threading.Event()
        state = {'loop_thread': None, 'requests': 0, 'lock': threading.Lock()}

        class Pool(asyncio.PriorityQueue):
            async def get(self):
                state['loop_thread'] = threading.get_ident()
                return await super().get()

            def empty(self):
                e = super().empty()
                if e and threading.get_ident() == state['loop_thread']:
                    window.set()
                    time.sleep(0.005)
                    window.clear()
                return e

            def put_nowait(self, item):
                with state['lock']:
                    state['requests'] = max(0, state['requests'] - 1)
                if state['loop_thread'] is not None and threading.get_ident() != state['loop_thread']:
                    about_to_put.set()
                    window.wait(0.3)
                    try:
                        return super().put_nowait(item)
                    finally:
                        about_to_put.clear()
                return super().put_nowait(item)

        class AsyncioModule:
            def __getattr__(self, name):
                return getattr(asyncio, name)

            @staticmethod
            def run_coroutine_threadsafe(coro, loop):
                if threading.current_thread() is not threading.main_thread():
                    with state['lock']:
                        busy = state['requests'] > 0
                        state['requests'] += 1
                    if busy:
                        about_to_put.wait(0.25)  # hold the request back until the holder is about to hand its slot back
                return asyncio.run_coroutine_threadsafe(coro, loop)

        be = MemBackend()
        out = {}

        async def go():
            r = Repository(be, concurrent=1, quiet=True, cache_directory=None)
            await r.init(settings={'encryption': None, 'chunking': {'min_length': 64, 'max_length': 64}, 'hashing': {'name': 'blake2b', 'length': 16}})
            await r.snapshot(paths=[wd / 'src'])
            r2 = Repository(be, concurrent=1, quiet=True, cache_directory=None)
            await r2.unlock()
            pool = Pool(maxsize=1)
            pool.put_nowait(2)
            r2._slots = pool
            (wd / 'out').mkdir()
            saved = R.asyncio
            R.asyncio = AsyncioModule()
            try:
                await asyncio.wait_for(r2.restore(path=wd / 'out'), 12)
            finally:
                R.asyncio = saved
            t = Path(wd / 'out', *Path(str((wd / 'src' / 'f').resolve())).parts[1:])
            out['restored'] = t.is_file() and t.read_bytes() == data
            out['free'] = pool.qsize()
        try:
            with contextlib.redirect_stdout(io.StringIO()), contextlib.redirect_stderr(io.StringIO()):
                asyncio.run(go())
        except (asyncio.TimeoutError, TimeoutError):
            out['error'] = 'hang'
        except Exception as e:
            out['error'] = f'{type(e).__name__}: {str(e)[:100]}'
        rep.case(('lost-wakeup', trial), nontrivial=True)
        rep.count('lost_wakeup_probe')
        shutil.rmtree(wd, ignore_errors=True)
        if out.get('error') == 'hang':
            rep.violations.append({'what': 'restore does not terminate (one slot, two loader threads): a slot handed back while the event loop was between "the pool is '
                                           'empty" and "the waiter is registered" woke nobody; the waiting loader thread never gets the free slot',
                                   'signature': {'kind': 'hang', 'probe': 'lost_wakeup'}, 'replay': {'probe': 'lost_wakeup'}})
            return
        if out.get('error') or not out.get('restored'):
            rep.violations.append({'what': f'restore under the forced slot hand-back schedule: {out.get("error") or "restored bytes differ"}',
                                   'signature': {'kind': 'spurious_error', 'probe': 'lost_wakeup'}, 'replay': {'probe': 'lost_wakeup'}})
            return


def limiter_schedule_probe(ctx, rep: Report):
    """Several transfer threads share one rate limiter (snapshot / restore with a rate limit, plain backend, N >= 2).  The schedule
    of interest: a thread is descheduled right at the first clock reading of a pause inside the limiter (the clock of replicat.utils is
    wrapped so that this reading takes a while for worker threads), long enough for a sleeping thread to wake up and settle its
    account.  Streams end with the usual empty read, which owes nothing.  No transfer may fail because of what another thread did to
    the shared pause account, and every byte must come through unchanged."""
    import replicat.utils as U
    import time as _time
    L = 2_000_000
    piece = 1_100_000                # more than PAUSE_LIMIT worth: every data transfer fills the pause account up to its cap
    errors, results = [], {}
    calls = {}

    class SlowClock:
        def __getattr__(self, name):
            return getattr(_time, name)

        @staticmethod
        def perf_counter():
            me = threading.current_thread()
            if me is not threading.main_thread():
                n = calls[me] = calls.get(me, 0) + 1
                if n % 2 == 1:
                    _time.sleep(0.4)                  # descheduled right here (odd readings = the start of a pause)
            return _time.perf_counter()
    saved = U.time
    U.time = SlowClock()
    try:
        limiter = U.RateLimitedIO(L)

        def transfer(i):
            try:
                ok = True
                _time.sleep(0.65 * i)                  # the second transfer reaches the limiter while the first one sleeps in it
                for k in range(2):
                    data = bytes([16 * i + k]) * piece
                    w = limiter.wrap(io.BytesIO(data))
                    got = b''
                    while True:
                        b = w.read(piece)
                        if not b:
                            break
                        got += b
                    ok = ok and got == data
                results[i] = ok
            except Exception as e:
                errors.append(f'{type(e).__name__}: {str(e)[:100]}')
        ts = [threading.Thread(target=transfer, args=(i,), daemon=True) for i in range(2)]
        for t in ts:
            t.start()
        for t in ts:
            t.join(60)
    finally:
        U.time = saved
    rep.case(('limiter-schedule',), nontrivial=True)
    rep.count('limiter_schedule_probe')
    if errors:
        rep.violations.append({'what': f'two transfers sharing one rate limiter, a thread descheduled at a clock reading inside the limiter: a transfer fails with {errors[0]} '
                                       '(a spurious error that depends on the thread schedule only)',
                               'signature': {'kind': 'spurious_error', 'probe': 'limiter_schedule'}, 'replay': {'probe': 'limiter_schedule'}})
    elif any(t.is_alive() for t in ts) or not all(results.get(i) for i in range(2)):
        rep.violations.append({'what': 'two transfers sharing one rate limiter under a forced thread schedule: a transfer hangs or delivers other bytes',
                               'signature': {'kind': 'hang', 'probe': 'limiter_schedule'}, 'replay': {'probe': 'limiter_schedule'}})


def auth_race_probe(ctx, rep: Report):
    """A plain (thread) backend whose transfers need an authorisation (requires_auth): the first authorised calls of a fresh session
    come from several loader threads at once while the first authentication takes its time.  Every thread that arrives during it
    waits for it; restore ends without an error and reproduces the files, whatever the arrival order."""
    from replicat.repository import Repository
    from replicat.utils import requires_auth
    from harness.memstore import MemBackend

    class AuthMem(MemBackend):
        def __init__(self, objects):
            super().__init__()
            self.objects = objects
            self.auths = 0

        def authenticate(self):
            time.sleep(0.25)
            self.auths += 1
            self._token = 'granted'

        @requires_auth
        def download_stream(self, name, stream, chunk_size=128_000):
            if getattr(self, '_token', None) is None:
                raise RuntimeError('transfer issued without an authorisation')
            time.sleep(0.002 * (hash(name) % 7))
            return super().download_stream(name, stream, chunk_size)

        @requires_auth
        def upload_stream(self, name, stream, length, chunk_size=128_000):
            if getattr(self, '_token', None) is None:
                raise RuntimeError('transfer issued without an authorisation')
            return super().upload_stream(name, stream, length, chunk_size)

    for N in (4, 2, 8):
        wd = ctx.scratch / f'c09-auth-{N}'
        (wd / 'src').mkdir(parents=True)
        data = ctx.rng.randbytes(64 * 40)
        (wd / 'src' / 'f').write_bytes(data)
        objects = {}
        out = {}

        async def go():
            r = Repository(AuthMem(objects), concurrent=N, quiet=True, cache_directory=None)
            await r.init(settings={'encryption': None, 'chunking': {'min_length': 64, 'max_length': 64}, 'hashing': {'name': 'blake2b', 'length': 16}})
            await asyncio.wait_for(r.snapshot(paths=[wd / 'src']), 60)
            be2 = AuthMem(objects)
            r2 = Repository(be2, concurrent=N, quiet=True, cache_directory=None)
            await r2.unlock()
            (wd / 'out').mkdir()
            await asyncio.wait_for(r2.restore(path=wd / 'out'), 60)
            t = Path(wd / 'out', *Path(str((wd / 'src' / 'f').resolve())).parts[1:])
            out['restored'] = t.is_file() and t.read_bytes() == data
            out['auths'] = be2.auths
        try:
            with contextlib.redirect_stdout(io.StringIO()), contextlib.redirect_stderr(io.StringIO()):
                asyncio.run(go())
        except Exception as e:
            out['error'] = f'{type(e).__name__}: {str(e)[:100]}'
        rep.case(('auth-race', N), nontrivial=True)
        rep.count('auth_race_probe')
        if out.get('error') or not out.get('restored'):
            rep.violations.append({'what': f'snapshot + restore (N={N}) over a thread backend whose first authentication takes 0.25 s while {N} transfer threads arrive: '
                                           f'{out.get("error") or "restored bytes differ"} (a sequential run succeeds)',
                                   'signature': {'kind': 'spurious_error', 'probe': 'auth_race'}, 'replay': {'probe': 'auth_race'}})
        shutil.rmtree(wd, ignore_errors=True)


def cancel_probe(ctx, rep: Report):
    """A snapshot that is cancelled (Ctrl-C under asyncio.run, a wait_for time-out around the command, a cancelled coroutine-backend
    call) while its producer still has more chunks than the pipeline holds must END: the producer thread is told to stop on every way
    out of the upload phase, whatever the exception is."""
    from replicat.repository import Repository
    from harness.memstore import MemBackend
    for how in ('cancel', 'wait_for'):
        wd = ctx.scratch / f'c09-cancel-{how}'
        (wd / 'src').mkdir(parents=True)
        (wd / 'src' / 'f').write_bytes(ctx.rng.randbytes(64 * 200))
        be = MemBackend(random.Random(1), 0.02)
        out = {}

        async def go():
            r = Repository(be, concurrent=1, quiet=True, cache_directory=None)
            await r.init(settings={'encryption': None, 'chunking': {'min_length': 64, 'max_length': 64}, 'hashing': {'name': 'blake2b', 'length': 16}})
            if how == 'cancel':
                t = asyncio.ensure_future(r.snapshot(paths=[wd / 'src']))
                while len([c for c in be.calls if c[0] == 'upload_stream']) < 3 and not t.done():
                    await asyncio.sleep(0.005)
                t.cancel()
            else:
                t = asyncio.ensure_future(asyncio.wait_for(r.snapshot(paths=[wd / 'src']), 0.4))
            done, pending = await asyncio.wait([t], timeout=10)
            out['ended'] = not pending
            if pending:
                t.cancel()
                await asyncio.wait([t], timeout=2)
            elif not t.cancelled() and t.exception() is None:
                out['completed'] = True
        try:
            with contextlib.redirect_stdout(io.StringIO()), contextlib.redirect_stderr(io.StringIO()):
                asyncio.run(go())
        except Exception as e:
            out['error'] = f'{type(e).__name__}: {str(e)[:100]}'
        rep.case(('cancel', how), nontrivial=not out.get('completed'))
        rep.count('cancel_probe')
        if not out.get('ended', True):
            rep.violations.append({'what': f'a snapshot that is cancelled ({"task.cancel()" if how == "cancel" else "wait_for time-out"}) while its producer has more chunks than the '
                                           'pipeline holds does not end within 10 s: the producer thread was never told to stop',
                                   'signature': {'kind': 'hang', 'probe': 'cancel'}, 'replay': {'probe': 'cancel'}})
        shutil.rmtree(wd, ignore_errors=True)


def queue_race_probe(ctx, rep: Report):
    """Forced timing around the worker's exit test: the producer's first put waits until a worker has looked at the
    (still empty) queue, and that look takes long enough for the producer to queue everything and return.  A worker may
    leave only when nothing is queued AND the producer is known to be done; every chunk must still be processed."""
    import queue as _queue
    import replicat.repository as R
    from replicat.repository import Repository
    from harness.memstore import MemBackend
    for flavour in ('plain',):
        wd = ctx.scratch / 'c09-queue-race'
        (wd / 'src').mkdir(parents=True)
        data = ctx.rng.randbytes(64 * 5)
        (wd / 'src' / 'f').write_bytes(data)
        seen_empty = threading.Event()

        class RacyQueue(_queue.Queue):
            def empty(self):
                r = super().empty()
                if r:
                    seen_empty.set()
                    time.sleep(0.3)          # the look at the empty queue lingers (the event loop thread is busy meanwhile)
                return r

            def put(self, item, block=True, timeout=None):
                seen_empty.wait(5)           # the producer queues its chunks only after that look has started
                return super().put(item, block, timeout)

        class QueueModule:
            Queue = RacyQueue
            Empty, Full = _queue.Empty, _queue.Full

            def __getattr__(self, name):
                return getattr(_queue, name)

        be = MemBackend()
        out = {}

        async def go():
            r = Repository(be, concurrent=1, quiet=True, cache_directory=None)
            await r.init(settings={'encryption': None, 'chunking': {'min_length': 64, 'max_length': 64}, 'hashing': {'name': 'blake2b', 'length': 16}})
            saved = R.queue
            R.queue = QueueModule()
            try:
                snap = await asyncio.wait_for(r.snapshot(paths=[wd / 'src']), 30)
            finally:
                R.queue = saved
            out['refs'] = sum(c['range'][1] - c['range'][0] for f in snap.data['files'] for c in f['chunks'])
            out['chunks'] = len([n for n in be.objects if n.startswith('data/')])
            (wd / 'out').mkdir()
            res = await r.restore(path=wd / 'out')
            t = Path(wd / 'out', *Path(str((wd / 'src' / 'f').resolve())).parts[1:])
            out['restored'] = t.is_file() and t.read_bytes() == data
        try:
            with contextlib.redirect_stdout(io.StringIO()), contextlib.redirect_stderr(io.StringIO()):
                asyncio.run(go())
        except Exception as e:
            out['error'] = f'{type(e).__name__}: {str(e)[:100]}'
        rep.case(('queue-race', flavour), nontrivial=True)
        rep.count('queue_race_probe')
        if out.get('error') or out.get('refs') != len(data) or not out.get('restored'):
            rep.violations.append({'what': ('with the producer finishing while a worker looks at the empty queue, the snapshot '
                                            f'references {out.get("refs")} of {len(data)} bytes ({out.get("chunks")} chunk objects), restored={out.get("restored")}, '
                                            f'error={out.get("error")}'),
                                   'signature': {'kind': 'chunks_dropped_at_producer_exit', 'flavour': flavour}, 'replay': {'probe': 'queue_race'}})
        shutil.rmtree(wd, ignore_errors=True)


def validate_pipe_traces(rep: Report):
    """the put / get / completion events recorded on the real snapshot pipeline must be accepted by Model/Sched.pipe_trace
    (vm_compute): capacity respected, gets take the head of the queue, completions are of chunks held; at the end nothing is
    queued or held and (pipe_trace_exactly_once) the processed chunks are exactly the chunks put"""
    traces = rep.extra.pop('_pipe_traces', [])
    if not traces:
        return
    per = 80
    jobs = []
    for i in range(0, len(traces), per):
        L = ['From Coq Require Import List Arith.', 'From Replicat Require Import Model.Sched.', 'Import ListNotations.',
             'Definition cases : list (nat * list pev) := [']
        items = []
        for cap, evs, _ in traces[i:i + per]:
            body = '; '.join({'P': 'EvPut %d', 'G': 'EvGet %d', 'F': 'EvFin %d'}[k] % c for k, c in evs)
            items.append('  (%d, [%s])' % (cap, body))
        L.append(';\n'.join(items))
        L.append('].')
        L.append('Eval vm_compute in map (fun c => match pipe_trace (fst c) [] [] [] (snd c) with '
                 'Some (q, h, d) => (1, length q, length h, length d, length (puts_of (snd c))) | None => (0, 0, 0, 0, 0) end) cases.')
        jobs.append((f'c09_pipe_{i // per}', '\n'.join(L) + '\n'))
    res = core.coq_eval_files(jobs)
    out = []
    for name, _ in jobs:
        rc, text = res[name]
        if rc != 0:
            rep.disagreements.append({'what': 'the pipeline model could not be evaluated: ' + text[-800:], 'replay': None})
            return
        out += core.parse_coq_term(core.parse_coq_values(text)[-1])
    for (cap, evs, case), (ok, nq, nh, nd, nput) in zip(traces, out):
        rep.traces_validated += 1
        if not ok:
            rep.disagreements.append({'what': f'a pipeline trace of the implementation is not a trace of the model (capacity {cap}): {evs[:14]}...', 'replay': case})
        elif nq or nh or nd != nput:
            rep.violations.append({'what': f'snapshot returned with {nq} chunk(s) still queued, {nh} in a worker\'s hands, {nd} of {nput} processed',
                                   'signature': {'kind': 'chunks_not_processed', 'flavour': case['flavour']}, 'replay': case})
    rep.count('pipeline_events_validated', sum(len(evs) for _, evs, _ in traces))


def validate_fin_traces(rep: Report):
    """the (file, digest, finished) records taken inside restore's finalisation critical sections, in their real order, must be
    a run of Model/Sched.run_events over the plan computed from the snapshot: the model finalises the same files in the same
    order and nothing stays pending"""
    traces = rep.extra.pop('_fin_traces', [])
    if not traces:
        return
    per = 80
    jobs, expect = [], []
    for i in range(0, len(traces), per):
        L = ['From Coq Require Import List Arith.', 'From Replicat Require Import Model.Sched.', 'Import ListNotations.',
             'Definition cases : list (pending * list (nat * nat)) := [']
        items = []
        for plan, evs, _ in traces[i:i + per]:
            fid = {f: k for k, f in enumerate(sorted(plan))}
            did = {d: k for k, d in enumerate(sorted({d for ds in plan.values() for d in ds} | {d for _, d, _ in evs}))}
            for f, _, _ in evs:
                fid.setdefault(f, len(fid))
            p = '; '.join('(%d, [%s])' % (fid[f], '; '.join(str(did[d]) for d in ds)) for f, ds in sorted(plan.items()))
            e = '; '.join('(%d, %d)' % (fid[f], did[d]) for f, d, _ in evs)
            items.append('  ([%s], [%s])' % (p, e))
            expect.append([fid[f] for f, _, fin in evs if fin])
        L.append(';\n'.join(items))
        L.append('].')
        L.append('Eval vm_compute in map (fun c => let r := run_events (snd c) (fst c) in (fst r, length (snd r))) cases.')
        jobs.append((f'c09_fin_{i // per}', '\n'.join(L) + '\n'))
    res = core.coq_eval_files(jobs)
    out = []
    for name, _ in jobs:
        rc, text = res[name]
        if rc != 0:
            rep.disagreements.append({'what': 'the finalisation model could not be evaluated: ' + text[-800:], 'replay': None})
            return
        out += core.parse_coq_term(core.parse_coq_values(text)[-1])
    for (plan, evs, case), (fins, left), exp in zip(traces, out, expect):
        rep.traces_validated += 1
        if plan and not evs:
            rep.disagreements.append({'what': 'no finalisation record could be taken from restore (the critical section of _download_chunk '
                                              'was not recognised)', 'replay': case})
        elif list(fins) != exp or left:
            rep.disagreements.append({'what': f'finalisation order of the implementation {exp} differs from the model {list(fins)} '
                                              f'({left} file(s) left pending in the model)', 'replay': case})
    rep.count('finalisation_events_validated', sum(len(evs) for _, evs, _ in traces))


def _run(ctx, n_random, n_forced, n_perm, rep):
    # forced finalisation race
    for k in range(n_forced):
        case = forced_race_case(k)
        r = random.Random(k)
        check(case, ctx, rep, lambda r=r: (lambda n: r.randrange(n)), f'race{k}')
    for k in range(max(2, n_forced // 3)):
        case = backend_down_case(k)
        r = random.Random(k)
        check(case, ctx, rep, lambda r=r: (lambda n: r.randrange(n)), f'down{k}')
    for k in range(max(3, n_forced // 4)):
        case = many_chunks_case(k)
        r = random.Random(k)
        check(case, ctx, rep, lambda r=r: (lambda n: r.randrange(n)), f'many{k}')
    # exhaustive completion orders for a tiny configuration: 2 files / ~3 chunks, N = 2
    tiny = {'mn': 32, 'mx': 32, 'files': [{'size': 64, 'kind': 'rand'}, {'size': 31, 'kind': 'rand'}], 'content_seed': 7, 'N': 2,
            'flavour': 'async', 'order_seed': 0, 'encrypted': False, 'fail_at': None, 'fail_phase': 'restore', 'rendezvous': False, 'mode': 'exhaustive'}
    scripts = list(itertools.product([0, 1], repeat=6))
    ctx.rng.shuffle(scripts)
    for i, script in enumerate(scripts[:n_perm]):
        def factory(script=script):
            it = iter(itertools.cycle(script))
            return lambda n: min(next(it), n - 1)
        check(dict(tiny, order_seed=list(script), flavour=['async', 'plain'][i % 2]), ctx, rep, factory, f'perm{i}')
    for i in range(n_random):
        case = gen_case(ctx.rng)
        r = random.Random(case['order_seed'])
        check(case, ctx, rep, lambda r=r: (lambda n: r.randrange(n)), f'rnd{i}')
    if rep.extra.get('_loop_blocked'):
        rep.extra.pop('_loop_blocked')
        for k in ('_slot_traces', '_pipe_traces', '_fin_traces'):
            rep.extra.pop(k, None)
        return
    queue_race_probe(ctx, rep)
    lost_wakeup_probe(ctx, rep)
    limiter_schedule_probe(ctx, rep)
    cancel_probe(ctx, rep)
    auth_race_probe(ctx, rep)
    validate_slot_traces(rep)
    validate_pipe_traces(rep)
    validate_fin_traces(rep)
    # process level: a restore that fails must END (no loader thread may wait for a closed event loop)
    from harness import cli_hist
    cli_hist.termination_probe(ctx, rep, {'restore'})
    # a coroutine backend whose authorisation expires while several transfers are outstanding
    from harness import remote_hist
    remote_hist.remote_expiry_probe(ctx, rep, 3)


def run(ctx) -> Report:
    rep = Report(rule=RULE)
    _run(ctx, ctx.scale(40, 600), ctx.scale(12, 60), ctx.scale(12, 64), rep)
    return rep


def search(ctx, broken) -> Report:
    rep = Report(rule=RULE)
    _run(ctx, ctx.scale(150, 1500), 40, 40, rep)
    return rep


def replay(ctx, obj):
    from harness import cli_hist
    rc = cli_hist.replay_cli(ctx, obj, ('hang', 'silent_corruption'))
    if rc is not None:
        return rc
    rep = Report(rule=RULE)
    case = obj.get('replay') or {}
    if case.get('probe') in ('cancel', 'auth_race'):
        (cancel_probe if case['probe'] == 'cancel' else auth_race_probe)(ctx, rep)
        for v in rep.violations:
            print('VIOLATION-REPRODUCED', v['what'])
        return 1 if rep.violations else 0
    if case.get('probe') == 'limiter_schedule':
        limiter_schedule_probe(ctx, rep)
        for v in rep.violations:
            print('VIOLATION-REPRODUCED', v['what'])
        return 1 if rep.violations else 0
    if case.get('probe') == 'remote_expiry':
        from harness import remote_hist
        remote_hist.remote_expiry_probe(ctx, rep, 6)
        for v in rep.violations:
            print('VIOLATION-REPRODUCED', v['what'])
        return 1 if rep.violations else 0
    if case.get('probe') == 'lost_wakeup':
        lost_wakeup_probe(ctx, rep)
        for v in rep.violations:
            print('VIOLATION-REPRODUCED', v['what'])
        return 1 if rep.violations else 0
    if 'files' not in case:
        print('replay file carries no C09 case'); return 0
    seed = case['order_seed'] if isinstance(case['order_seed'], int) else 0
    r = random.Random(seed)
    check(case, ctx, rep, lambda: (lambda n: r.randrange(n)), 'replay')
    for v in rep.violations:
        print('VIOLATION-REPRODUCED', v['what'])
    return 1 if rep.violations else 0
