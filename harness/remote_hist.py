"""A fixed small history of the real Repository over the remote adapters (B2 addressed by bucket name and by bucket id, and the
S3-compatible adapter) talking to the in-memory fake services of harness/fakes_http.py: snapshot, the same data again (by the same
and by a shared-key user), other data, delete, clean, restore.  Oracles are model-free and read the service's own object map:
unchanged data transfers nothing and is stored once (C07), delete + clean leave exactly the referenced chunks and touch nothing
else (C08), what remains restores (C02)."""
import asyncio
import contextlib
import io
import shutil
from pathlib import Path

KDF = {'name': 'scrypt', 'n': 4, 'r': 1, 'p': 1}
DEPLOYMENTS = ('b2-by-name', 'b2-by-id', 's3c')


def _viol(rep, kind, what, dep):
    rep.violations.append({'what': f'[{dep}] ' + what, 'signature': {'kind': kind, 'backend': dep}, 'replay': {'probe': 'remote', 'deployment': dep}})


def remote_probe(ctx, rep, mine, deployments=DEPLOYMENTS):
    from harness import fakes_http as fk
    from replicat.repository import Repository
    for dep in deployments:
        wd = Path(ctx.scratch) / f'remote-{dep}'
        shutil.rmtree(wd, ignore_errors=True)
        (wd / 'a').mkdir(parents=True)
        (wd / 'b').mkdir(parents=True)
        shared = ctx.rng.randbytes(300)
        (wd / 'a' / 'f').write_bytes(shared + ctx.rng.randbytes(400))
        (wd / 'a' / 'g').write_bytes(ctx.rng.randbytes(90) + shared)
        (wd / 'b' / 'h').write_bytes(shared + ctx.rng.randbytes(200))
        encrypted = ctx.rng.random() < 0.6
        if dep.startswith('b2'):
            svc = fk.FakeB2('bkt', page_size=4, piece=64, max_requests=60000)
        else:
            svc = fk.FakeS3('bkt', page_size=4, piece=64, max_requests=60000)
        uploads = []
        out = {}

        def make_backend():
            if dep.startswith('b2'):
                from replicat.backends.b2 import B2
                return B2('bkt' if dep == 'b2-by-name' else svc.bucket_id, key_id='kid', application_key='appkey')
            from replicat.backends.s3c import S3Compatible
            return S3Compatible('bkt', key_id='AKIDEXAMPLE', access_key='secret', region='us-east-1', host='s3.example.test', scheme='http')

        def data_objects():
            return {k for k in svc.objects if k.startswith('data/')}

        async def go():
            be = make_backend()
            orig_stream = type(be).upload_stream

            async def counting(self_, name, *a, **k):
                uploads.append(name)
                return await orig_stream(self_, name, *a, **k)
            type(be).upload_stream = counting
            try:
                settings = {'chunking': {'min_length': 32, 'max_length': 64}, 'hashing': {'name': 'blake2b', 'length': 16},
                            'encryption': {'kdf': dict(KDF)} if encrypted else None}
                pw = b'pw' if encrypted else None
                r0 = Repository(be, concurrent=2, quiet=True, cache_directory=None)
                init = await r0.init(password=pw, settings=settings)
                await be.upload('notes/readme.txt', b'outside the repository areas')

                async def user(key, password):
                    r = Repository(be, concurrent=2, quiet=True, cache_directory=None)
                    await r.unlock(password=password, key=key)
                    return r
                key2 = None
                if encrypted:
                    r = await user(init.key, pw)
                    key2 = (await r.add_key(password=b'pw2', settings={'encryption': {'kdf': dict(KDF)}}, shared=True)).new_key
                s1 = await (await user(init.key, pw)).snapshot(paths=[wd / 'a'])
                n1 = len(uploads)
                before = data_objects()
                s2 = await (await user(init.key, pw)).snapshot(paths=[wd / 'a'])
                out['again_same_user'] = (len(uploads) - n1, data_objects() - before)
                n2 = len(uploads)
                s3 = await (await user(key2, b'pw2') if encrypted else await user(None, None)).snapshot(paths=[wd / 'a' / 'f', wd / 'a' / 'g'])
                out['again_shared_user'] = (len(uploads) - n2, data_objects() - before)
                sb = await (await user(init.key, pw)).snapshot(paths=[wd / 'b'])
                ru = await user(init.key, pw)
                loc = ru._chunk_digest_to_location
                out['ref_all'] = {loc(d) for s in (s1, s2, s3, sb) for d in s.chunks}
                out['exact_after_snapshots'] = data_objects()
                if dep.startswith('b2'):
                    out['versions'] = {k: len([v for v in vs if v[0] == 'upload']) for k, vs in svc.versions.items() if k.startswith('data/')}
                await (await user(init.key, pw)).delete_snapshots([s1.name, s2.name], confirm=False)
                if encrypted:
                    await (await user(key2, b'pw2')).delete_snapshots([s3.name], confirm=False)
                else:
                    await (await user(None, None)).delete_snapshots([s3.name], confirm=False)
                # garbage of the family (what an interrupted snapshot leaves behind) and an object that is nobody's
                ru2 = await user(init.key, pw)
                out['orphan'] = ru2._chunk_digest_to_location(bytes(range(16)))
                await be.upload(out['orphan'], b'orphan')
                await (await user(init.key, pw)).clean()
                out['ref_b'] = {loc(d) for d in sb.chunks}
                out['after_gc'] = dict(svc.objects)
                (wd / 'out').mkdir()
                try:
                    await (await user(init.key, pw)).restore(path=wd / 'out')
                    t = Path(wd / 'out', *Path(str((wd / 'b' / 'h').resolve())).parts[1:])
                    out['restored'] = t.is_file() and t.read_bytes() == (wd / 'b' / 'h').read_bytes()
                except Exception as e:
                    out['restored'] = f'{type(e).__name__}: {str(e)[:80]}'
                await be.close()
            finally:
                type(be).upload_stream = orig_stream

        err = None
        with fk.patched_async_client(svc.handler), fk.VirtualSleep(), contextlib.redirect_stdout(io.StringIO()), contextlib.redirect_stderr(io.StringIO()):
            try:
                asyncio.run(asyncio.wait_for(go(), 120))
            except Exception as e:
                err = f'{type(e).__name__}: {str(e)[:120]}'
        rep.case(('remote', dep, encrypted), nontrivial=True)
        rep.count('remote_probe=' + dep)
        shutil.rmtree(wd, ignore_errors=True)
        if err is not None:
            if 'exception' in mine:
                _viol(rep, 'exception', f'a fault-free history of snapshot / delete / clean / restore failed: {err}', dep)
            continue
        n, new = out['again_same_user']
        if (n or new) and 'repeat_uploaded_payload' in mine:
            _viol(rep, 'repeat_uploaded_payload', f'snapshot of unchanged data transferred {n} chunk payload(s) and stored {len(new)} new object(s)', dep)
        n, new = out['again_shared_user']
        if (n or new) and 'repeat_uploaded_payload' in mine:
            _viol(rep, 'repeat_uploaded_payload', f'snapshot of data already uploaded by a shared-key user transferred {n} chunk payload(s)', dep)
        if out['exact_after_snapshots'] != out['ref_all'] and 'not_exact' in mine:
            _viol(rep, 'not_exact', f'chunk objects differ from the chunks referenced: {len(out["exact_after_snapshots"] - out["ref_all"])} unreferenced, '
                                    f'{len(out["ref_all"] - out["exact_after_snapshots"])} missing', dep)
        dup = {k: c for k, c in out.get('versions', {}).items() if c > 1}
        if dup and 'repeat_uploaded_payload' in mine:
            _viol(rep, 'repeat_uploaded_payload', f'{len(dup)} chunk name(s) hold more than one stored version (the same chunk was uploaded again)', dep)
        after = out['after_gc']
        data_after = {k for k in after if k.startswith('data/')}
        if data_after - out['ref_b'] and 'gc_incomplete' in mine:
            _viol(rep, 'gc_incomplete', f'delete + clean left {len(data_after - out["ref_b"])} unreferenced chunk object(s)', dep)
        if out['ref_b'] - data_after and 'referenced_chunk_missing' in mine:
            _viol(rep, 'referenced_chunk_missing', f'delete + clean removed {len(out["ref_b"] - data_after)} chunk(s) the remaining snapshot references', dep)
        if ('notes/readme.txt' not in after or 'config' not in after) and 'gc_overreach' in mine:
            _viol(rep, 'gc_overreach', 'delete + clean removed config or an object outside the chunk and snapshot areas', dep)
        if out['restored'] is not True and 'restore_mismatch' in mine:
            _viol(rep, 'restore_mismatch', f'the remaining snapshot does not restore: {out["restored"]}', dep)
