"""A fixed small history of the real Repository over the remote adapters (B2 addressed by bucket name and by bucket id, and the
S3-compatible adapter) talking to the in-memory fake services of harness/fakes_http.py: snapshot, the same data again (by the same
and by a shared-key user), other data, delete, clean, restore.  Oracles are model-free and read the service's own object map:
unchanged data transfers nothing and is stored once (C07), delete + clean leave exactly the referenced chunks and touch nothing
else (C08), what remains restores (C02)."""
import asyncio
import contextlib
import io
import json
import shutil
from pathlib import Path

KDF = {'name': 'scrypt', 'n': 4, 'r': 1, 'p': 1}
DEPLOYMENTS = ('b2-by-name', 'b2-by-id', 's3c')


def _viol(rep, kind, what, dep):
    rep.violations.append({'what': f'[{dep}] ' + what, 'signature': {'kind': kind, 'backend': dep}, 'replay': {'probe': 'remote', 'deployment': dep}})


def remote_probe(ctx, rep, mine, deployments=DEPLOYMENTS):
    from harness import fakes_http as fk
    from replicat.repository import Repository
    for dep in deployments:
        wd = Path(ctx.scratch) / f'remote-{dep}'
        shutil.rmtree(wd, ignore_errors=True)
        (wd / 'a').mkdir(parents=True)
        (wd / 'b').mkdir(parents=True)
        shared = ctx.rng.randbytes(300)
        (wd / 'a' / 'f').write_bytes(shared + ctx.rng.randbytes(400))
        (wd / 'a' / 'g').write_bytes(ctx.rng.randbytes(90) + shared)
        (wd / 'b' / 'h').write_bytes(shared + ctx.rng.randbytes(200))
        encrypted = ctx.rng.random() < 0.6
        if dep.startswith('b2'):
            # pages of ONE name by bucket name (every name is the first of a continuation page), of two by bucket id
            svc = fk.FakeB2('bkt', page_size=1 if dep == 'b2-by-name' else 2, piece=64, max_requests=60000)
        else:
            svc = fk.FakeS3('bkt', page_size=2, piece=64, max_requests=60000)
        uploads = []
        out = {}

        def make_backend():
            if dep.startswith('b2'):
                from replicat.backends.b2 import B2
                return B2('bkt' if dep == 'b2-by-name' else svc.bucket_id, key_id='kid', application_key='appkey')
            from replicat.backends.s3c import S3Compatible
            return S3Compatible('bkt', key_id='AKIDEXAMPLE', access_key='secret', region='us-east-1', host='s3.example.test', scheme='http')

        def data_objects():
            return {k for k in svc.objects if k.startswith('data/')}

        async def go():
            be = make_backend()
            orig_stream = type(be).upload_stream

            async def counting(self_, name, *a, **k):
                uploads.append(name)
                return await orig_stream(self_, name, *a, **k)
            type(be).upload_stream = counting
            try:
                settings = {'chunking': {'min_length': 32, 'max_length': 64}, 'hashing': {'name': 'blake2b', 'length': 16},
                            'encryption': {'kdf': dict(KDF)} if encrypted else None}
                pw = b'pw' if encrypted else None
                r0 = Repository(be, concurrent=2, quiet=True, cache_directory=None)
                init = await r0.init(password=pw, settings=settings)
                await be.upload('notes/readme.txt', b'outside the repository areas')

                async def user(key, password):
                    r = Repository(be, concurrent=2, quiet=True, cache_directory=None)
                    await r.unlock(password=password, key=key)
                    return r
                key2 = None
                if encrypted:
                    r = await user(init.key, pw)
                    key2 = (await r.add_key(password=b'pw2', settings={'encryption': {'kdf': dict(KDF)}}, shared=True)).new_key
                s1 = await (await user(init.key, pw)).snapshot(paths=[wd / 'a'])
                n1 = len(uploads)
                before = data_objects()
                s2 = await (await user(init.key, pw)).snapshot(paths=[wd / 'a'])
                out['again_same_user'] = (len(uploads) - n1, data_objects() - before)
                n2 = len(uploads)
                s3 = await (await user(key2, b'pw2') if encrypted else await user(None, None)).snapshot(paths=[wd / 'a' / 'f', wd / 'a' / 'g'])
                out['again_shared_user'] = (len(uploads) - n2, data_objects() - before)
                # a client whose credentials may write but not look (existence checks answered 403 for good): it is either refused or,
                # if it carries on, it must not store what is stored already
                n3 = len(uploads)
                denied = {'on': True}
                out['_denied'] = denied
                try:
                    await (await user(init.key, pw)).snapshot(paths=[wd / 'a'])
                    out['look_denied'] = ('completed', len(uploads) - n3)
                except Exception as e:
                    out['look_denied'] = (f'refused ({type(e).__name__})', len(uploads) - n3)
                denied['on'] = False
                sb = await (await user(init.key, pw)).snapshot(paths=[wd / 'b'])
                ru = await user(init.key, pw)
                loc = ru._chunk_digest_to_location
                out['ref_all'] = {loc(d) for s in (s1, s2, s3, sb) for d in s.chunks}
                out['exact_after_snapshots'] = data_objects()
                if dep.startswith('b2'):
                    out['versions'] = {k: len([v for v in vs if v[0] == 'upload']) for k, vs in svc.versions.items() if k.startswith('data/')}
                await (await user(init.key, pw)).delete_snapshots([s1.name, s2.name], confirm=False)
                if encrypted:
                    await (await user(key2, b'pw2')).delete_snapshots([s3.name], confirm=False)
                else:
                    await (await user(None, None)).delete_snapshots([s3.name], confirm=False)
                # garbage of the family (what an interrupted snapshot leaves behind) and an object that is nobody's
                ru2 = await user(init.key, pw)
                out['orphan'] = ru2._chunk_digest_to_location(bytes(range(16)))
                await be.upload(out['orphan'], b'orphan')
                await (await user(init.key, pw)).clean()
                out['ref_b'] = {loc(d) for d in sb.chunks}
                out['after_gc'] = dict(svc.objects)
                (wd / 'out').mkdir()
                try:
                    await (await user(init.key, pw)).restore(path=wd / 'out')
                    t = Path(wd / 'out', *Path(str((wd / 'b' / 'h').resolve())).parts[1:])
                    out['restored'] = t.is_file() and t.read_bytes() == (wd / 'b' / 'h').read_bytes()
                except Exception as e:
                    out['restored'] = f'{type(e).__name__}: {str(e)[:80]}'
                await be.close()
            finally:
                type(be).upload_stream = orig_stream

        async def handler(request):
            d = out.get('_denied')
            if d and d['on'] and request.method == 'HEAD':
                return svc._fault_response('403')
            return await svc.handler(request)

        err = None
        with fk.patched_async_client(handler), fk.VirtualSleep(), contextlib.redirect_stdout(io.StringIO()), contextlib.redirect_stderr(io.StringIO()):
            try:
                asyncio.run(asyncio.wait_for(go(), 120))
            except Exception as e:
                err = f'{type(e).__name__}: {str(e)[:120]}'
        rep.case(('remote', dep, encrypted), nontrivial=True)
        rep.count('remote_probe=' + dep)
        shutil.rmtree(wd, ignore_errors=True)
        if err is not None:
            if 'exception' in mine:
                _viol(rep, 'exception', f'a fault-free history of snapshot / delete / clean / restore failed: {err}', dep)
            continue
        n, new = out['again_same_user']
        if (n or new) and 'repeat_uploaded_payload' in mine:
            _viol(rep, 'repeat_uploaded_payload', f'snapshot of unchanged data transferred {n} chunk payload(s) and stored {len(new)} new object(s)', dep)
        n, new = out['again_shared_user']
        if (n or new) and 'repeat_uploaded_payload' in mine:
            _viol(rep, 'repeat_uploaded_payload', f'snapshot of data already uploaded by a shared-key user transferred {n} chunk payload(s)', dep)
        how, n = out.get('look_denied', ('', 0))
        if how == 'completed' and n and 'repeat_uploaded_payload' in mine:
            _viol(rep, 'repeat_uploaded_payload', f'with existence checks answered 403 (credentials that may write but not look) a snapshot of unchanged data completed and '
                                                  f'transferred {n} chunk payload(s) again', dep)
        if out['exact_after_snapshots'] != out['ref_all'] and 'not_exact' in mine:
            _viol(rep, 'not_exact', f'chunk objects differ from the chunks referenced: {len(out["exact_after_snapshots"] - out["ref_all"])} unreferenced, '
                                    f'{len(out["ref_all"] - out["exact_after_snapshots"])} missing', dep)
        dup = {k: c for k, c in out.get('versions', {}).items() if c > 1}
        if dup and 'repeat_uploaded_payload' in mine:
            _viol(rep, 'repeat_uploaded_payload', f'{len(dup)} chunk name(s) hold more than one stored version (the same chunk was uploaded again)', dep)
        after = out['after_gc']
        data_after = {k for k in after if k.startswith('data/')}
        if data_after - out['ref_b'] and 'gc_incomplete' in mine:
            _viol(rep, 'gc_incomplete', f'delete + clean left {len(data_after - out["ref_b"])} unreferenced chunk object(s)', dep)
        if out['ref_b'] - data_after and 'referenced_chunk_missing' in mine:
            _viol(rep, 'referenced_chunk_missing', f'delete + clean removed {len(out["ref_b"] - data_after)} chunk(s) the remaining snapshot references', dep)
        if ('notes/readme.txt' not in after or 'config' not in after) and 'gc_overreach' in mine:
            _viol(rep, 'gc_overreach', 'delete + clean removed config or an object outside the chunk and snapshot areas', dep)
        if out['restored'] is not True and 'restore_mismatch' in mine:
            _viol(rep, 'restore_mismatch', f'the remaining snapshot does not restore: {out["restored"]}', dep)


def remote_fault_probe(ctx, rep, mine, n=6, focus=None, prefer_exists=False):
    """C03 over the remote adapters: from some request on, one kind of request (uploads / deletions / existence checks) is answered
    with an error for good (401, 403, 500, 503) while a snapshot or a delete runs.  Whatever the command reports, once the service
    is healthy again every snapshot that is visible must have all its chunks and restore, and a new snapshot + clean must work."""
    from harness import fakes_http as fk
    from replicat.repository import Repository
    for trial in range(n):
        rng = ctx.rng
        dep = rng.choice(['b2-by-name', 'b2-by-id', 's3c'])
        victim = rng.choice(['snapshot', 'snapshot', 'delete']) if focus is None else (focus if rng.random() < 0.8 else rng.choice(['snapshot', 'delete']))
        if dep.startswith('b2'):
            op = rng.choice(['upload', 'upload', 'get_upload_url', 'head']) if victim == 'snapshot' else rng.choice(['hide_file', 'list_file_names'])
            kinds = ['401', '401', '500', '503', '403', '400']
        else:
            op = rng.choice(['PUT', 'PUT', 'HEAD']) if victim == 'snapshot' else rng.choice(['DELETE', 'LIST'])
            kinds = ['500', '503', '403', '401', '400']
        if prefer_exists and victim == 'snapshot' and trial % 2 == 0:
            # the existence check of a chunk is the call that fails (throttled, refused): "is it there?" has no answer
            op = 'head' if dep.startswith('b2') else 'HEAD'
        kind = rng.choice(kinds)
        skip = rng.choice([0, 0, 1, 2, 3, 5])
        wd = Path(ctx.scratch) / f'remote-fault-{trial}'
        shutil.rmtree(wd, ignore_errors=True)
        (wd / 'a').mkdir(parents=True)
        (wd / 'b').mkdir(parents=True)
        shared = rng.randbytes(200)
        (wd / 'a' / 'f').write_bytes(shared + rng.randbytes(300))
        (wd / 'b' / 'h').write_bytes(rng.randbytes(400) + shared)
        svc = fk.FakeB2('bkt', page_size=50, piece=64, max_requests=200000) if dep.startswith('b2') else fk.FakeS3('bkt', page_size=50, piece=64, max_requests=200000)
        out = {}

        def make_backend():
            if dep.startswith('b2'):
                from replicat.backends.b2 import B2
                return B2('bkt' if dep == 'b2-by-name' else svc.bucket_id, key_id='kid', application_key='appkey')
            from replicat.backends.s3c import S3Compatible
            return S3Compatible('bkt', key_id='AKIDEXAMPLE', access_key='secret', region='us-east-1', host='s3.example.test', scheme='http')

        async def go():
            be = make_backend()
            settings = {'chunking': {'min_length': 32, 'max_length': 64}, 'hashing': {'name': 'blake2b', 'length': 16}, 'encryption': None}

            async def repo():
                r = Repository(be, concurrent=2, quiet=True, cache_directory=None)
                await r.unlock()
                return r
            await Repository(be, concurrent=2, quiet=True, cache_directory=None).init(settings=settings)
            sa = await (await repo()).snapshot(paths=[wd / 'a'])
            known = {sa.location: sa}
            fault['on'] = True
            try:
                if victim == 'snapshot':
                    sb = await (await repo()).snapshot(paths=[wd / 'b'])
                    known[sb.location] = sb
                else:
                    await (await repo()).delete_snapshots([sa.name], confirm=False)
                out['outcome'] = 'completed'
            except Exception as e:
                out['outcome'] = f'failed ({type(e).__name__})'
            out['fired'] = fault['fired']
            fault['on'] = False
            if victim == 'delete' and out['outcome'] == 'completed':
                # a delete that reports success has removed the snapshot and the chunks only it referenced
                ra = await repo()
                out['delete_left'] = ([sa.location] if sa.location in svc.objects else []) + \
                    [c for c in map(ra._chunk_digest_to_location, sa.chunks) if c in svc.objects]
            r = await repo()
            objs = svc.objects
            out['visible'] = [loc for loc in objs if loc.startswith('snapshots/')]
            out['unknown'] = [loc for loc in out['visible'] if loc not in known]
            out['missing'] = {loc: [c for c in map(r._chunk_digest_to_location, known[loc].chunks) if c not in objs] for loc in out['visible'] if loc in known}
            (wd / 'out').mkdir()
            try:
                await (await repo()).restore(path=wd / 'out')
                out['restore'] = 'ok'
            except Exception as e:
                out['restore'] = f'{type(e).__name__}: {str(e)[:80]}'
            try:
                await (await repo()).snapshot(paths=[wd / 'a' / 'f'])
                await (await repo()).clean()
                out['after'] = 'ok'
            except Exception as e:
                out['after'] = f'{type(e).__name__}: {str(e)[:80]}'
            await be.close()

        # ONE backend call fails for good: every request that names the (skip+1)-th object touched by `op` is answered with the error,
        # however often it is repeated; with whole=True every request of that kind is (the service refuses that kind of call)
        fault = {'on': False, 'target': None, 'seen': [], 'fired': 0}
        whole = rng.random() < 0.3

        def object_of(request):
            from urllib.parse import unquote
            path = unquote(request.url.path)
            if dep.startswith('b2'):
                if '/b2_upload_file/' in path:
                    return 'upload', unquote(request.headers.get('x-bz-file-name', ''))
                if path.endswith('/b2_hide_file'):
                    try:
                        return 'hide_file', json.loads(request.content or b'{}').get('fileName')
                    except Exception:
                        return 'hide_file', None
                if path.startswith('/file/'):
                    return ('head' if request.method == 'HEAD' else 'download'), path.split('/', 3)[3] if path.count('/') >= 3 else None
                for nm in ('b2_get_upload_url', 'b2_list_file_names'):
                    if path.endswith('/' + nm):
                        return nm[3:], None
                return None, None
            key = path[len('/bkt/'):] if path.startswith('/bkt/') else None
            if request.method == 'GET' and key in (None, ''):
                return 'LIST', None
            return request.method, key

        async def handler(request):
            if fault['on']:
                o, name = object_of(request)
                if o == op:
                    hit = whole or name is None
                    if not hit:
                        if name not in fault['seen']:
                            fault['seen'].append(name)
                        if fault['target'] is None and len(fault['seen']) == skip + 1:
                            fault['target'] = name
                        hit = name == fault['target']
                    elif whole and name is not None and len(fault['seen']) <= skip:
                        fault['seen'].append(name)
                        hit = len(fault['seen']) > skip
                    if hit:
                        fault['fired'] += 1
                        if request.method in ('POST', 'PUT'):
                            try:
                                await request.aread()
                            except Exception:
                                pass
                        return svc._fault_response(kind)
                elif fault['target'] is not None and name == fault['target'] and o in ('head', 'download', 'HEAD', 'GET'):
                    pass
            return await svc.handler(request)

        err = None
        with fk.patched_async_client(handler), fk.VirtualSleep(), contextlib.redirect_stdout(io.StringIO()), contextlib.redirect_stderr(io.StringIO()):
            try:
                asyncio.run(asyncio.wait_for(go(), 180))
            except Exception as e:
                err = f'{type(e).__name__}: {str(e)[:120]}'
        what = (f'{victim} while every {op} request from #{skip} on is answered {kind}' if whole else
                f'{victim} while the {op} call for object #{skip} is answered {kind} for good')
        rep.case(('remote-fault', dep, victim, op, kind, skip), nontrivial=bool(out.get('fired')))
        rep.count('remote_fault=' + dep)
        shutil.rmtree(wd, ignore_errors=True)
        if err is not None:
            rep.disagreements.append({'what': f'[{dep}] remote fault probe could not run: {err}', 'replay': {'probe': 'remote_fault'}})
            continue
        rep.count('remote_fault_outcome=' + out['outcome'].split(' ')[0])
        bad = {loc: m for loc, m in out['missing'].items() if m}
        if bad and 'referenced_chunk_missing' in mine:
            n_ = sum(len(m) for m in bad.values())
            _viol(rep, 'referenced_chunk_missing', f'after {what} (the command {out["outcome"]}) a visible snapshot misses {n_} of its chunks: it is listed but cannot be restored', dep)
        elif out['restore'] != 'ok' and 'restore_mismatch' in mine:
            _viol(rep, 'restore_mismatch', f'after {what} (the command {out["outcome"]}) restore fails: {out["restore"]}', dep)
        if out.get('delete_left') and 'gc_incomplete' in mine:
            _viol(rep, 'gc_incomplete', f'{what}: the delete command completed but left {len(out["delete_left"])} of the objects it was to remove '
                                        '(the snapshot object and/or chunks only it referenced)', dep)
        if out['unknown'] and 'unknown_object' in mine:
            _viol(rep, 'unknown_object', f'after {what} a snapshot object is visible that no completed command wrote', dep)
        if out['after'] != 'ok' and 'exception' in mine:
            _viol(rep, 'exception', f'after {what} the repository is not usable any more (new snapshot + clean): {out["after"]}', dep)


def remote_expiry_probe(ctx, rep, n=3):
    """C09 over a coroutine backend whose authorisation expires while several transfers are outstanding (B2 against the fake service;
    the account authorisation answers slowly): snapshot and restore at concurrency 1, 4 and 8 must end without a spurious error and
    reproduce the files - one expired token is one refresh, whatever the number of transfers that ran into it."""
    from harness import fakes_http as fk
    from replicat.repository import Repository
    from replicat.backends.b2 import B2
    for trial in range(n):
        rng = ctx.rng
        conc = [1, 4, 8][trial % 3]
        wd = Path(ctx.scratch) / f'remote-expiry-{trial}'
        shutil.rmtree(wd, ignore_errors=True)
        (wd / 'a').mkdir(parents=True)
        data = {f'f{i}': rng.randbytes(rng.choice([300, 700, 1500])) for i in range(3)}
        for k, v in data.items():
            (wd / 'a' / k).write_bytes(v)
        svc = fk.FakeB2('bkt', page_size=50, piece=64, max_requests=200000, authorize_delay=rng.choice([10, 40, 120]))
        out = {}
        skip_snap, skip_rest = rng.randint(3, 12), rng.randint(2, 8)

        async def go():
            be = B2(rng.choice(['bkt', svc.bucket_id]), key_id='kid', application_key='appkey')
            settings = {'chunking': {'min_length': 32, 'max_length': 64}, 'hashing': {'name': 'blake2b', 'length': 16}, 'encryption': None}
            await Repository(be, concurrent=conc, quiet=True, cache_directory=None).init(settings=settings)
            r = Repository(be, concurrent=conc, quiet=True, cache_directory=None)
            await r.unlock()
            svc.plan = fk.FaultPlan([{'op': '*', 'kind': 'expire', 'count': 1, 'skip': skip_snap}])
            try:
                await r.snapshot(paths=[wd / 'a'])
                out['snapshot'] = 'ok'
            except Exception as e:
                out['snapshot'] = f'{type(e).__name__}: {str(e)[:80]}'
                return
            out['fired_snapshot'] = len(svc.plan.fired)
            r2 = Repository(be, concurrent=conc, quiet=True, cache_directory=None)
            await r2.unlock()
            svc.plan = fk.FaultPlan([{'op': '*', 'kind': 'expire', 'count': 1, 'skip': skip_rest}])
            (wd / 'out').mkdir()
            try:
                await r2.restore(path=wd / 'out')
                out['restore'] = 'ok'
            except Exception as e:
                out['restore'] = f'{type(e).__name__}: {str(e)[:80]}'
                return
            out['fired_restore'] = len(svc.plan.fired)
            out['bytes'] = all(Path(wd / 'out', *Path(str((wd / 'a' / k).resolve())).parts[1:]).read_bytes() == v for k, v in data.items())
            out['slots'] = (r._slots.qsize(), r2._slots.qsize())
            await be.close()

        err = None
        with fk.patched_async_client(svc.handler), fk.VirtualSleep(), contextlib.redirect_stdout(io.StringIO()), contextlib.redirect_stderr(io.StringIO()):
            try:
                asyncio.run(asyncio.wait_for(go(), 120))
            except (asyncio.TimeoutError, TimeoutError):
                err = 'hang'
            except Exception as e:
                err = f'{type(e).__name__}: {str(e)[:120]}'
        rep.case(('remote-expiry', conc, skip_snap, skip_rest), nontrivial=bool(out.get('fired_snapshot') or out.get('fired_restore')))
        rep.count('remote_expiry_probe')
        shutil.rmtree(wd, ignore_errors=True)
        what = f'B2 backend, concurrency {conc}, the authorisation expires once during snapshot (request #{skip_snap}) and once during restore (request #{skip_rest}), authorise answers slowly'
        replay = {'probe': 'remote_expiry'}
        if err == 'hang':
            rep.violations.append({'what': what + ': the history does not terminate', 'signature': {'kind': 'hang', 'probe': 'remote_expiry'}, 'replay': replay})
        elif err is not None:
            rep.disagreements.append({'what': 'remote expiry probe could not run: ' + err, 'replay': replay})
        elif out.get('snapshot') != 'ok' or out.get('restore') != 'ok':
            bad = out.get('snapshot') if out.get('snapshot') != 'ok' else out.get('restore')
            rep.violations.append({'what': what + f': spurious error {bad} (one refresh masks one expired token)', 'signature': {'kind': 'spurious_error', 'probe': 'remote_expiry'}, 'replay': replay})
        elif not out.get('bytes'):
            rep.violations.append({'what': what + ': restored bytes differ', 'signature': {'kind': 'content', 'probe': 'remote_expiry'}, 'replay': replay})
        elif out.get('slots') != (conc, conc):
            rep.violations.append({'what': what + f': slots not all available afterwards {out.get("slots")}', 'signature': {'kind': 'slots', 'probe': 'remote_expiry'}, 'replay': replay})
