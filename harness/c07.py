"""C07 - identical data is stored once."""
from harness import cli_hist, core, remote_hist, repo_hist
from harness.core import Report

RULE = ('cases = crash-free multi-user histories with heavy content overlap (identical files, shared blocks, repeated snapshots of '
        'unchanged data by the same or a shared-key user, concurrent snapshot pairs, deletes, cleans); after every command: chunk objects '
        '== chunks referenced by remaining snapshots (lifted state, also compared with Model/Repo.exec), uploaded names == missing names, '
        'a repeat of present data uploads nothing, no storage name shared across families; non-trivial = >= 3 commands of >= 2 kinds')
WEIGHTS = {'snapshot': 4, 'repeat': 4, 'pair': 1, 'delete': 2, 'clean': 1, 'observe': 1, 'flaky_gc': 1}
CHECKS = {'dedup'}
MINE = ('not_exact', 'upload_set', 'repeat_uploaded_payload', 'table_dup', 'family_alias', 'exception', 'unknown_object')


CLI_MINE = ('exception', 'hang', 'snapshot_unreadable', 'snapshot_objects', 'snapshot_name', 'upload_set', 'repeat_uploaded_payload', 'table_dup', 'not_exact', 'shared_secrets_differ', 'independent_secrets_equal')


def _run(ctx, n, nops, rep, concurrent=None):
    seeds = [ctx.rng.randint(0, 2 ** 31) for _ in range(n)]
    repo_hist.run_batch(seeds, ctx.scratch, rep, nops=nops, weights=WEIGHTS, checks=CHECKS,
                        concurrent=concurrent or ctx.rng.choice([1, 2, 4]), delay=0.001)
    rep.violations[:] = [v for v in rep.violations if v['signature']['kind'] in MINE]
    # the same property through the tool as a user runs it: fresh `python -m replicat` processes, a repository on disk, real faults
    cli_hist.run_scenarios(ctx, rep, {'plain': ctx.scale(6, 60)}, CLI_MINE)
    cli_hist.linked_shards_probe(ctx, rep, CLI_MINE + ('referenced_chunk_missing', 'snapshot_not_listed', 'gc_incomplete'))
    # "the chunk objects are precisely the distinct chunks referenced" also after a delete / clean that met a refusing or failing
    # file system: no listed snapshot without its chunks, no unreferenced chunk after a command that reported success
    cli_hist.refused_removal_probe(ctx, rep, CLI_MINE + ('referenced_chunk_missing', 'gc_incomplete'))
    cli_hist.scan_fault_probe(ctx, rep, CLI_MINE + ('referenced_chunk_missing', 'gc_incomplete'))
    # and over the remote adapters (B2 by bucket name and by bucket id, S3-compatible) against in-memory fake services
    remote_hist.remote_probe(ctx, rep, ('exception', 'repeat_uploaded_payload', 'not_exact'))


def run(ctx) -> Report:
    rep = Report(rule=RULE)
    _run(ctx, ctx.scale(40, 600), ctx.scale(10, 18), rep)
    return rep


def search(ctx, broken) -> Report:
    rep = Report(rule=RULE)
    _run(ctx, ctx.scale(120, 1500), 16, rep)
    rep.disagreements.clear()
    return rep


def replay(ctx, obj):
    rc = cli_hist.replay_cli(ctx, obj, CLI_MINE + ('referenced_chunk_missing', 'snapshot_not_listed', 'gc_incomplete')
                             if (obj.get('replay') or {}).get('probe') else CLI_MINE)
    if rc is not None:
        return rc
    if (obj.get('replay') or {}).get('probe') == 'remote':
        rep = Report(rule=RULE)
        remote_hist.remote_probe(ctx, rep, ('exception', 'repeat_uploaded_payload', 'not_exact'), deployments=[obj['replay']['deployment']])
        for v in rep.violations:
            print('VIOLATION-REPRODUCED', v['what'])
        return 1 if rep.violations else 0
    rep = Report(rule=RULE)
    seed = (obj.get('replay') or {}).get('seed')
    if seed is None:
        print('no seed in replay file'); return 0
    repo_hist.run_batch([seed], ctx.scratch, rep, nops=18, weights=WEIGHTS, checks=CHECKS, concurrent=2, delay=0.001)
    for v in rep.violations:
        print('VIOLATION-REPRODUCED', v['what'])
    for d in rep.disagreements:
        print('DISAGREEMENT-REPRODUCED', d['what'])
    return 1 if rep.violations or rep.disagreements else 0
