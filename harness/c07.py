"""C07 - identical data is stored once."""
from harness import cli_hist, core, remote_hist, repo_hist
from harness.core import Report

RULE = ('cases = crash-free multi-user histories with heavy content overlap (identical files, shared blocks, repeated snapshots of '
        'unchanged data by the same or a shared-key user, concurrent snapshot pairs, deletes, cleans); after every command: chunk objects '
        '== chunks referenced by remaining snapshots (lifted state, also compared with Model/Repo.exec), uploaded names == missing names, '
        'a repeat of present data uploads nothing, no storage name shared across families; non-trivial = >= 3 commands of >= 2 kinds')
WEIGHTS = {'snapshot': 4, 'repeat': 4, 'pair': 1, 'delete': 2, 'clean': 1, 'observe': 1, 'flaky_gc': 1}
CHECKS = {'dedup'}
MINE = ('not_exact', 'upload_set', 'repeat_uploaded_payload', 'table_dup', 'family_alias', 'exception', 'unknown_object')


CLI_MINE = ('exception', 'hang', 'snapshot_unreadable', 'snapshot_objects', 'snapshot_name', 'upload_set', 'repeat_uploaded_payload', 'table_dup', 'not_exact', 'shared_secrets_differ', 'independent_secrets_equal')


def unchanged_data_probe(ctx, rep, n):
    """"A snapshot of unchanged data transfers no chunk payload" for file sizes at the edges of the chunker's look-ahead: chunk lengths
    that are not multiples of the alignment, a first file of max_length .. max_length+3 bytes (or a few bytes around multiples of it)
    followed by more data, the same files snapshotted by two sessions.  With the recompiled native chunker the memory behind every
    chunking buffer is a pattern that differs between the two sessions, so cuts that depend on anything but the data show up as payload
    transferred for unchanged data."""
    import asyncio
    import shutil
    from pathlib import Path
    from harness.memstore import MemBackend
    from harness.repo_hist import quiet
    from replicat.repository import Repository
    try:
        import _replicat_adapters as A
        guarded = hasattr(A, 'GUARD_LEN')
    except ImportError:
        A, guarded = None, False
    rng = ctx.rng
    for trial in range(n):
        mn, mx = rng.choice([(12, 61), (8, 35), (5, 33), (16, 62), (9, 127), (20, 101)])
        wd = Path(ctx.scratch) / f'unchanged-{trial}'
        shutil.rmtree(wd, ignore_errors=True)
        (wd / 'src').mkdir(parents=True)
        k = rng.choice([1, 1, 2, 3])
        first = rng.randbytes(k * mx + rng.choice([0, 1, 2, 3]) - rng.choice([0, 0, 0, 1]))
        (wd / 'src' / 'a.bin').write_bytes(first)
        (wd / 'src' / 'b.bin').write_bytes(rng.randbytes(rng.randint(mx, 6 * mx)))
        if rng.random() < 0.4:
            (wd / 'src' / 'c.bin').write_bytes(rng.randbytes(mx + rng.choice([0, 1, 2])))
        be = MemBackend()
        out = {}

        async def go():
            settings = {'chunking': {'min_length': mn, 'max_length': mx}, 'hashing': {'name': 'blake2b', 'length': 16}, 'encryption': None}
            await Repository(be, concurrent=2, quiet=True, cache_directory=None).init(settings=settings)
            for session in range(2):
                if guarded:
                    A.GUARD = bytes([0x11 + 0x5D * session + trial % 7]) + rng.randbytes(6)
                r = Repository(be, concurrent=2, quiet=True, cache_directory=None)
                await r.unlock()
                before = len([c for c in be.calls if c[0] == 'upload_stream'])
                res = await r.snapshot(paths=[wd / 'src'])
                out[session] = (len([c for c in be.calls if c[0] == 'upload_stream']) - before, [bytes(d) for d in res.chunks])
            ref = {r._chunk_digest_to_location(d) for s_ in out.values() for d in s_[1]}
            out['extra'] = {x for x in be.objects if x.startswith('data/')} - ref
        with quiet()[0], quiet()[1]:
            asyncio.run(asyncio.wait_for(go(), 120))
        if guarded:
            A.GUARD = None
        shutil.rmtree(wd, ignore_errors=True)
        rep.case(('unchanged-data', mn, mx, len(first)), nontrivial=True)
        rep.count('unchanged_data_probe')
        if out[1][0] or out[0][1] != out[1][1]:
            rep.violations.append({'what': f'snapshot of unchanged data (chunk lengths {mn}/{mx}, first file {len(first)} bytes) by a second session transferred '
                                           f'{out[1][0]} chunk payload(s); the chunk tables of the two snapshots {"differ" if out[0][1] != out[1][1] else "are equal"}',
                                   'signature': {'kind': 'repeat_uploaded_payload', 'probe': 'unchanged_data'}, 'replay': {'probe': 'unchanged_data'}})
        elif out['extra']:
            rep.violations.append({'what': f'{len(out["extra"])} chunk object(s) no snapshot references after two snapshots of the same data',
                                   'signature': {'kind': 'not_exact', 'probe': 'unchanged_data'}, 'replay': {'probe': 'unchanged_data'}})


def _run(ctx, n, nops, rep, concurrent=None):
    seeds = [ctx.rng.randint(0, 2 ** 31) for _ in range(n)]
    repo_hist.run_batch(seeds, ctx.scratch, rep, nops=nops, weights=WEIGHTS, checks=CHECKS,
                        concurrent=concurrent or ctx.rng.choice([1, 2, 4]), delay=0.001)
    rep.violations[:] = [v for v in rep.violations if v['signature']['kind'] in MINE]
    # the same property through the tool as a user runs it: fresh `python -m replicat` processes, a repository on disk, real faults
    cli_hist.run_scenarios(ctx, rep, {'plain': ctx.scale(6, 60)}, CLI_MINE)
    cli_hist.linked_shards_probe(ctx, rep, CLI_MINE + ('referenced_chunk_missing', 'snapshot_not_listed', 'gc_incomplete'))
    # "the chunk objects are precisely the distinct chunks referenced" also after a delete / clean that met a refusing or failing
    # file system: no listed snapshot without its chunks, no unreferenced chunk after a command that reported success
    unchanged_data_probe(ctx, rep, ctx.scale(150, 1500))
    cli_hist.refused_removal_probe(ctx, rep, CLI_MINE + ('referenced_chunk_missing', 'gc_incomplete'))
    cli_hist.scan_fault_probe(ctx, rep, CLI_MINE + ('referenced_chunk_missing', 'gc_incomplete'))
    # and over the remote adapters (B2 by bucket name and by bucket id, S3-compatible) against in-memory fake services
    remote_hist.remote_probe(ctx, rep, ('exception', 'repeat_uploaded_payload', 'not_exact'))
    # ... exactness also when the service refuses one call of a delete for good (401/403/400/5xx): a delete that reports success has
    # removed the snapshot object and every chunk only it referenced
    remote_hist.remote_fault_probe(ctx, rep, ('gc_incomplete', 'referenced_chunk_missing'), n=ctx.scale(14, 80), focus='delete')


def run(ctx) -> Report:
    rep = Report(rule=RULE)
    _run(ctx, ctx.scale(40, 600), ctx.scale(10, 18), rep)
    return rep


def search(ctx, broken) -> Report:
    rep = Report(rule=RULE)
    _run(ctx, ctx.scale(120, 1500), 16, rep)
    rep.disagreements.clear()
    return rep


def replay(ctx, obj):
    rc = cli_hist.replay_cli(ctx, obj, CLI_MINE + ('referenced_chunk_missing', 'snapshot_not_listed', 'gc_incomplete')
                             if (obj.get('replay') or {}).get('probe') else CLI_MINE)
    if rc is not None:
        return rc
    if (obj.get('replay') or {}).get('probe') == 'unchanged_data':
        rep = Report(rule=RULE)
        unchanged_data_probe(ctx, rep, 600)
        for v in rep.violations:
            print('VIOLATION-REPRODUCED', v['what'])
        return 1 if rep.violations else 0
    if (obj.get('replay') or {}).get('probe') == 'remote':
        rep = Report(rule=RULE)
        remote_hist.remote_probe(ctx, rep, ('exception', 'repeat_uploaded_payload', 'not_exact'), deployments=[obj['replay']['deployment']])
        remote_hist.remote_fault_probe(ctx, rep, ('gc_incomplete', 'referenced_chunk_missing'), n=80, focus='delete')
        for v in rep.violations:
            print('VIOLATION-REPRODUCED', v['what'])
        return 1 if rep.violations else 0
    rep = Report(rule=RULE)
    seed = (obj.get('replay') or {}).get('seed')
    if seed is None:
        print('no seed in replay file'); return 0
    repo_hist.run_batch([seed], ctx.scratch, rep, nops=18, weights=WEIGHTS, checks=CHECKS, concurrent=2, delay=0.001)
    for v in rep.violations:
        print('VIOLATION-REPRODUCED', v['what'])
    for d in rep.disagreements:
        print('DISAGREEMENT-REPRODUCED', d['what'])
    return 1 if rep.violations or rep.disagreements else 0
