"""C15 - restore and the listings select exactly what the filters and timestamps say.
Correspondence: Model/Select.v (vm_compute, regex answers handed over as tables computed by Python's
re.search) vs the real Repository on an in-memory backend with scripted utcnow(), several users,
paths appearing / changing / disappearing, filters from a regex pool, every column selection;
model-free oracle: newest matching snapshot per path computed directly from ground truth.
DESIGN.md section 4, C15."""
from __future__ import annotations

import asyncio
import contextlib
import copy
import math
import hashlib
import io
import os
import random
import re
import shutil
import time
import traceback
from datetime import datetime, timedelta
from decimal import Decimal, ROUND_HALF_EVEN
from pathlib import Path

from harness import core
from harness.core import Report
from harness.memstore import MemBackend

KDF = {'name': 'scrypt', 'n': 4, 'r': 1, 'p': 1}
SCOLS = ['name', 'note', 'timestamp', 'file_count', 'size']
FCOLS = ['snapshot_name', 'snapshot_date', 'path', 'chunk_count', 'size', 'digest', 'atime', 'mtime', 'ctime']
SCOL_COQ = {'name': 'SName', 'note': 'SNote', 'timestamp': 'STimestamp', 'file_count': 'SFileCount', 'size': 'SSize'}
FCOL_COQ = {'snapshot_name': 'FSnapshotName', 'snapshot_date': 'FSnapshotDate', 'path': 'FPath', 'chunk_count': 'FChunkCount',
            'size': 'FSize', 'digest': 'FDigest', 'atime': 'FAtime', 'mtime': 'FMtime', 'ctime': 'FCtime'}
# the documented table headers and default selections (README / --help), not read from the code
SLABEL = {'name': 'NAME', 'note': 'NOTE', 'timestamp': 'TIMESTAMP (UTC)', 'file_count': 'FILES', 'size': 'SIZE'}
FLABEL = {'snapshot_name': 'SNAPSHOT NAME', 'snapshot_date': 'SNAPSHOT DATE', 'path': 'PATH', 'chunk_count': 'CHUNKS', 'size': 'SIZE',
          'digest': 'DIGEST', 'atime': 'ACCESSED AT', 'mtime': 'MODIFIED AT', 'ctime': 'CREATED AT'}
SDEFAULT = ['name', 'note', 'timestamp', 'file_count', 'size']
FDEFAULT = ['snapshot_date', 'path', 'chunk_count', 'size', 'mtime']
EMPTY = '--'
CMD_TIMEOUT = 120      # a command that hangs is reported, not waited for

REL_PATHS = ['a.txt', 'b.log', 'dir/a.txt', 'dir/b.log', 'dir/sub/c.dat', 'x_y.txt', 'z', 'data.bin', 'notes.md', 'dir/sub/deep/e.txt',
             'aa.txt', 'dir/bb.txt', 'dir/ee.log', 'oo.md']
# paths that differ from another path only by case (the scratch file system is case-sensitive)
CASE_PAIRS = [['Makefile', 'makefile'], ['README.md', 'readme.md'], ['dir/A.TXT', 'dir/a.txt'], ['Z', 'z'], ['dir/Notes.MD', 'dir/notes.md']]
SIZES = [0, 0, 1, 15, 64, 100, 999, 1000, 1001, 1005, 1015, 1125, 1375, 1995, 2500, 4321, 12345]
BIG_SIZES = [999_999, 1_000_000, 1_000_001, 1_005_000, 1_125_000, 1_234_567]
# every pattern is self-contained (no numbered back-reference, no inline global flag): those two
# classes are the known finding and are exercised by the dedicated probe only
FILE_RES = [r'\.txt$', r'\.log$', r'/dir/', r'/dir/sub/', r'^/.*\.dat$', r'[xy]_', r'a\.txt$|/z$', r'/src/[^/]*$',
            r'(?:sub|dir)/[a-c]', r'nomatch-', r'^', r'\.(txt|md)$', r'b', r'/src/a\.txt$', r'^src/', r'^/src/', r'^a\.txt$',
            r'[0-9a-z_]+\.[a-z]{3}$', r'(dir/)+sub', r'\.bin$',
            # letters in both cases: a filter must not select a path that differs from it only by case
            r'/Makefile$', r'/makefile$', r'README', r'readme\.md$', r'\.TXT$', r'\.txt$', r'/[A-Z][^/]*$', r'/[a-z]+$', r'/Z$', r'notes\.md$|A\.TXT$',
            r'\.MD$', r'DIR/', r'Src/']
NOTES = [None, None, 'first', 'two words', '', 'x-1']
# Patterns with groups and back-references, given next to other patterns.  With '|'.join a numbered
# back-reference keeps its meaning as long as no EARLIER pattern has a capturing group (the shifted case
# and inline global flags are the known finding, probed separately); named groups work anywhere.
NUMBERED_FILE_RES = [r'/(\w)\1\.txt$', r'/([a-z])\1\.[a-z]+$', r'notes|/(\w)\1\.log$', r'/(o)\1\.md$|/z$']
NAMED_FILE_RES = [r'(?P<d>[a-z])(?P=d)\.log$', r'/(?P<x>\w)(?P=x)\.(?:txt|md)$']
NOGROUP_FILE_RES = [p for p in FILE_RES if re.compile(p).groups == 0]


# --------------------------------------------------------------------------- plans (pure data, JSON)
def dt_tuple(d):
    return [d.year, d.month, d.day, d.hour, d.minute, d.second, d.microsecond]


TZS = ['CET-1CEST,M3.5.0,M10.5.0/3', 'EST5EDT,M3.2.0,M11.1.0']     # POSIX rules: no tzdata needed


def _nth_sunday(year, month, nth):
    """date of the nth (1..4) or last (5) Sunday of the month"""
    days = [d for d in range(1, 32) if _valid(year, month, d) and datetime(year, month, d).weekday() == 6]
    return days[-1] if nth == 5 else days[nth - 1]


def _valid(y, m, d):
    try:
        datetime(y, m, d)
        return True
    except ValueError:
        return False


def gen_dst_instants(rng, n, tz):
    """UTC clock readings that, misread as local time of a zone with daylight saving, fall into the hour
    skipped in spring (and the hour repeated in autumn): their local-time epoch order differs from
    their chronological (= string) order.  The process runs under that TZ for the history."""
    year = rng.choice([2001, 2019, 2024, 2024, 2025, 2030])
    if tz.startswith('CET'):
        spring, autumn = (3, _nth_sunday(year, 3, 5)), (10, _nth_sunday(year, 10, 5))
    else:
        spring, autumn = (3, _nth_sunday(year, 3, 2)), (11, _nth_sunday(year, 11, 1))
    pool = set()
    m, d = spring
    for h, mi, sec, us in ((1, 59, 59, 500000), (2, 0, 0, 0), (2, 30, 0, 0), (2, 30, 0, 7), (2, 59, 59, 999999), (3, 0, 0, 0),
                           (3, 10, 0, 250000), (3, 29, 59, 0), (3, 30, 0, 1), (3, 59, 0, 0), (4, 0, 0, 0), (2, 5, 0, 0), (3, 4, 0, 0)):
        pool.add(datetime(year, m, d, h, mi, sec, us))
    m, d = autumn
    for h, mi in ((0, 59), (1, 30), (2, 10), (2, 50), (3, 0), (3, 40)):
        pool.add(datetime(year, m, d, h, mi))
    pool.add(datetime(year, 6, 1, 8, 0, 0))
    return [dt_tuple(x) for x in rng.sample(sorted(pool), n)]


def gen_instants(rng, n):
    """n pairwise distinct instants around boundaries: same second with different microseconds (incl. 0),
    .099999/.100000, seconds/minutes/hours/days/months/years rolling over, years 1, 999, 1000, 9999."""
    year = rng.choice([1, 999, 1000, 1999, 2000, 2023, 2024, 2024, 2025, 2026, 9998])
    base = datetime(year, rng.choice([1, 2, 9, 10, 12]), rng.choice([1, 9, 10, 28]), rng.choice([0, 9, 10, 23]),
                    rng.choice([0, 9, 59]), rng.choice([0, 9, 59]))
    pool = set()
    for us in (0, 1, 10, 99999, 100000, 500000, 999999):
        pool.add(base.replace(microsecond=us))
    for delta in (timedelta(seconds=1), timedelta(seconds=-1), timedelta(minutes=1), timedelta(hours=1), timedelta(days=1),
                  timedelta(days=31), timedelta(days=366), timedelta(microseconds=-1)):
        try:
            pool.add(base + delta)
        except OverflowError:
            pass
    y = base.year
    pool.add(datetime(y, 12, 31, 23, 59, 59, 999999))
    pool.add(datetime(y, 12, 31, 23, 59, 59))
    pool.add(datetime(y + 1, 1, 1))
    pool.add(datetime(y + 1, 1, 1, 0, 0, 0, 1))
    pool.add(datetime(y, 9, 30, 23, 59, 59, 5))
    pool.add(datetime(y, 10, 1))
    pool.add(datetime(y, 2, 28, 9, 59, 59))
    pool.add(datetime(y, 2, 28, 10, 0, 0))
    if rng.random() < 0.2:
        pool |= {datetime(9999, 12, 31, 23, 59, 59, 999999), datetime(1, 1, 1), datetime(999, 12, 31, 23, 59, 59, 999999), datetime(1000, 1, 1)}
    return [dt_tuple(d) for d in rng.sample(sorted(pool), n)]


def gen_sre(rng, nsnaps):
    """symbolic snapshot filter: None or a list of pattern specs resolved against the real names"""
    k = rng.random()
    if k < 0.25:
        return None
    i, j = rng.randrange(nsnaps), rng.randrange(nsnaps)
    one = rng.choice([
        [['exact', i]], [['prefix', i, rng.choice([1, 4, 8])]], [['suffix', i, rng.choice([1, 5])]], [['mid', i, rng.choice([3, 10, 30])]],
        [['exact', i], ['exact', j]], [['prefix', i, 6], ['suffix', j, 6]], [['raw', '^[0-7]']], [['raw', '[89a-f]$']],
        [['raw', 'a.*b']], [['raw', '^$']], [['raw', '']], [['raw', '^[0-9a-f]+$']], [['location', i]], [['raw', '^snapshots/']],
        [['raw', '-']], [['tagprefix', i]], [['raw', '^[0-3]'], ['raw', '^[c-f]']], [['notprefix', i]],
        [['exact', i], ['raw', r'^(.)\1']], [['raw', r'([0-9a-f])\1\1'], ['prefix', j, 6]], [['suffix', i, 5], ['raw', r'(?P<h>[0-9a-f])(?P=h)(?P=h)'], ['prefix', j, 4]],
        [['raw', '^[0-3]'], ['raw', '^(?:[4-7])'], ['raw', r'^(..)\1|^(?:ff)']], [['raw', r'(?P<h>[0-9a-f])(?P=h)(?P=h)$']],
        [['upper', i]], [['upperprefix', i, rng.choice([6, 12])]], [['raw', '[A-F]']], [['upper', i], ['exact', j]], [['raw', '^[0-9A-F]+$']],
    ])
    return one


def gen_fre(rng):
    k = rng.random()
    if k < 0.3:
        return None
    if k < 0.7:
        return [rng.choice(FILE_RES + NUMBERED_FILE_RES + NAMED_FILE_RES)]
    if k < 0.82:
        return rng.sample(FILE_RES, 2)
    # two or more patterns, one of them with a back-reference: selected iff at least one pattern alone is found
    form = rng.random()
    if form < 0.35:
        return [rng.choice(NUMBERED_FILE_RES)] + rng.sample(FILE_RES, rng.choice([1, 2]))
    if form < 0.7:
        return rng.sample(NOGROUP_FILE_RES, rng.choice([1, 2])) + [rng.choice(NUMBERED_FILE_RES)] + rng.sample(FILE_RES, rng.choice([0, 1]))
    ps = rng.sample(FILE_RES, rng.choice([1, 2])) + [rng.choice(NAMED_FILE_RES)]
    rng.shuffle(ps)
    return ps


def gen_cols(rng, names):
    k = rng.random()
    if k < 0.12:
        return None
    if k < 0.3:
        return list(names)
    if k < 0.5:
        return [rng.choice(names)]
    n = rng.randint(1, len(names))
    cols = rng.sample(names, n)
    if rng.random() < 0.2:
        cols.insert(rng.randint(0, len(cols)), rng.choice(cols))    # a repeated column
    return cols


def gen_plan(rng, idx, big=False):
    encrypted = rng.random() < 0.8
    nsnaps = rng.randint(2, 8)
    users = ['u0', 'u1', 'u2'] if encrypted else ['u0']
    plan = {'idx': idx, 'encrypted': encrypted, 'cipher': rng.choice(['aes_gcm', 'chacha20_poly1305']),
            'hash_length': rng.choice([16, 32, 32, 64]), 'concurrent': rng.choice([1, 1, 2, 3]),
            'slow_snapshot_downloads': rng.random() < 0.3,
            'chunking': [8192, 65536] if big else rng.choice([[16, 64], [64, 256], [512, 4096]]), 'users': users}
    # one history in six runs under a daylight-saving local time zone with clock readings around the
    # transitions (the code must not look at local time at all)
    plan['tz'] = rng.choice(TZS) if rng.random() < 0.17 else None
    instants = gen_dst_instants(rng, nsnaps, plan['tz']) if plan['tz'] else gen_instants(rng, nsnaps)
    paths = rng.sample(REL_PATHS, rng.randint(2, 7))
    if rng.random() < 0.6:
        for pair in rng.sample(CASE_PAIRS, rng.choice([1, 2])):
            paths += [p for p in pair if p not in paths]
    state, snaps = {}, []
    vseed = rng.randrange(1 << 30)
    forced = [1_000_000, 999_999, 1_000_001] if (big and idx == 0) else []
    for i in range(nsnaps):
        # the tree evolves: paths appear, change content, keep content with a new mtime, disappear
        for p in paths:
            r = rng.random()
            if p not in state:
                if r < 0.5 or (i == 0 and not state):
                    state[p] = None
            elif r < 0.2:
                del state[p]
                continue
            elif r < 0.55:
                continue                        # unchanged version
            if p in state and (state[p] is None or r >= 0.55):
                vseed += 1
                keep_content = state[p] is not None and r > 0.9
                size = rng.choice(BIG_SIZES) if (big and rng.random() < 0.25) else rng.choice(SIZES)
                if forced:
                    size = forced.pop(0)        # every run lists files of exactly 10**6 - 1, 10**6, 10**6 + 1 bytes
                kind = state[p].get('kind', 'rand') if keep_content else rng.choice(['rand', 'rand', 'rand', 'zeros', 'rep'])
                others = [v for q, v in state.items() if q != p and v is not None]
                if not keep_content and others and rng.random() < 0.2:
                    src = rng.choice(others)            # an identical copy of another file of the tree
                    size, kind = src['size'], src.get('kind', 'rand')
                    copy_seed = src['seed']
                else:
                    copy_seed = None
                state[p] = {'seed': copy_seed if copy_seed is not None else (state[p]['seed'] if keep_content else vseed),
                            'size': state[p]['size'] if keep_content else size, 'kind': kind,
                            'mtime_ns': (1_500_000_000 + rng.randrange(200_000_000)) * 10 ** 9 + rng.choice([0, 1_000_000, 500_000_000, 999_000_000])}
        if rng.random() < 0.04:
            files = {}
        else:
            files = {p: dict(v) for p, v in state.items() if v is not None}
        user = rng.choices(users, [5, 3, 2][:len(users)])[0] if i >= 2 else 'u0'
        # files written to by someone else between replicat reading them to EOF and recording their
        # metadata: st_size (and nothing else) then disagrees with the bytes the snapshot holds
        late = {}
        if files and rng.random() < 0.3:
            for p in rng.sample(sorted(files), min(len(files), rng.choice([1, 1, 2]))):
                sz = files[p]['size']
                late[p] = ['append', rng.choice([1, 7, 1000, 2000])] if sz == 0 or rng.random() < 0.6 else ['truncate', rng.choice([1, sz // 2 + 1, sz])]
        # a share of the snapshots is re-recorded in the metadata format of replicat < 1.3 (st_atime / st_mtime /
        # st_ctime in seconds, float or int, no *_ns keys), mixed with current-format ones
        legacy = rng.choice(['float', 'float', 'int']) if rng.random() < 0.25 else None
        snaps.append({'user': user, 'ts': instants[i], 'note': rng.choice(NOTES), 'files': files, 'late': late, 'legacy': legacy})
    plan['snapshots'] = snaps
    queries = []

    def block(phase):
        caller = 'u0' if rng.random() < 0.8 or not encrypted else 'u1'
        for _ in range(rng.randint(2, 4)):
            queries.append({'op': 'restore', 'caller': caller, 'sre': gen_sre(rng, nsnaps), 'fre': gen_fre(rng), 'phase': phase})
        for _ in range(rng.randint(3, 5)):
            queries.append({'op': 'ls', 'caller': caller, 'sre': gen_sre(rng, nsnaps), 'cols': gen_cols(rng, SCOLS),
                            'header': rng.random() < 0.5, 'phase': phase})
        for _ in range(rng.randint(3, 5)):
            queries.append({'op': 'lf', 'caller': caller, 'sre': gen_sre(rng, nsnaps), 'fre': gen_fre(rng), 'cols': gen_cols(rng, FCOLS),
                            'header': rng.random() < 0.5, 'phase': phase})
    block(0)
    for _ in range(rng.randint(1, 3)):
        queries.append({'op': 'delete_bad', 'caller': 'u0', 'how': rng.choice(['random', 'mixed', 'location', 'truncated', 'upper', 'tag',
                                                                               'foreign', 'otherkey', 'padded']), 'pick': rng.randrange(100), 'phase': 0})
    queries.append({'op': 'delete', 'caller': 'u0', 'count': rng.choice([1, 1, 2]), 'pick': rng.randrange(100), 'phase': 0})
    block(1)
    plan['queries'] = queries
    return plan


def content_of(v):
    kind = v.get('kind', 'rand')
    if kind == 'zeros':
        return bytes(v['size'])
    if kind == 'rep':                       # one block repeated: every full chunk holds the same bytes
        block = random.Random(v['seed']).randbytes(16)
        return (block * (v['size'] // 16 + 1))[:v['size']]
    return random.Random(v['seed']).randbytes(v['size'])


# --------------------------------------------------------------------------- independent formatting
def fmt_dt(t):
    y, mo, d, h, mi, s, us = t
    return f'{y:04d}-{mo:02d}-{d:02d} {h:02d}:{mi:02d}:{s:02d}' + (f'.{us:06d}' if us else '')


def fmt_size(nbytes, divisor, unit):
    """f'{round(value / divisor, 2):g}{unit}' re-derived: the correctly rounded quotient, rounded half-even
    on its exact binary value to two places, printed without trailing zeros (values below 1e5 only)."""
    q = Decimal(nbytes / divisor).quantize(Decimal('0.01'), rounding=ROUND_HALF_EVEN)
    if q >= 100000:
        return None
    text = f'{q:f}'
    if '.' in text:
        text = text.rstrip('0').rstrip('.')
    return text + unit


def unit_of(nbytes):
    if nbytes < 1000:
        return 1, 'B'
    if nbytes < 1000 ** 2:
        return 1000, 'K'
    if nbytes < 1000 ** 3:
        return 1000 ** 2, 'M'
    return 1000 ** 3, 'G'


def fmt_ns(ns):
    return (datetime(1970, 1, 1) + timedelta(seconds=ns // 10 ** 9)).isoformat(sep=' ')


def time_cell(f, what):
    """expected ACCESSED/MODIFIED/CREATED AT text of a file from the values its snapshot records (nanosecond
    keys, or seconds in the pre-1.3 format); None when the value is within a microsecond of the next
    second (the conversion through a double may then round up - not a selection matter)"""
    key = {'atime': 'st_atime', 'mtime': 'st_mtime', 'ctime': 'st_ctime'}[what]
    meta = f['meta']
    if key + '_ns' in meta:
        ns = f['mtime_ns'] if what == 'mtime' else meta[key + '_ns']
        if ns % 10 ** 9 > 999_999_000:
            return None
        return fmt_ns(ns)
    v = meta[key]
    if v - math.floor(v) > 0.999999:
        return None
    return fmt_ns(int(math.floor(v)) * 10 ** 9)


def same_version(got, f):
    """restored (content, mtime_ns) is the version f"""
    return got is not None and got[0] == f['content'] and abs(got[1] - f['mtime_ns']) <= f.get('mtime_tol', 0)


# --------------------------------------------------------------------------- running the real commands
class SlowSnapshots(MemBackend):
    """snapshot objects take a few milliseconds to download: with fewer loader threads than snapshots the
    listing of snapshots/ is consumed long before the queued downloads start"""

    def download(self, name):
        if name.startswith('snapshots/'):
            time.sleep(0.003)
        return super().download(name)


class Exec:
    """Executes one plan on the real Repository; keeps ground truth; records observations."""

    def __init__(self, plan, scratch: Path):
        import replicat.repository as RR
        from replicat.repository import Repository
        from replicat.utils import SnapshotListColumn, FileListColumn
        from replicat.__main__ import _combine_optional_regexes
        from replicat import exceptions
        self.RR, self.Repository, self.SC, self.FC = RR, Repository, SnapshotListColumn, FileListColumn
        self.combine = _combine_optional_regexes
        self.ReplicatError = exceptions.ReplicatError
        self.plan, self.scratch = plan, scratch
        self.backend = SlowSnapshots() if plan.get('slow_snapshot_downloads') else MemBackend()
        self.keys = {}
        self.recs = []           # ground truth per snapshot taken
        self.obs = []            # per query: dict
        self.violations = []
        self.script = []
        self.nout = 0
        self.failed = False

    def viol(self, kind, what, q=None, extra=None):
        self.violations.append({'what': what, 'signature': {'kind': kind, 'encrypted': self.plan['encrypted']},
                                'replay': {'plan': self.plan, 'query': q, 'detail': extra}})

    def repo(self):
        return self.Repository(self.backend, concurrent=self.plan['concurrent'], quiet=True, cache_directory=None)

    async def unlocked(self, user):
        r = self.repo()
        pw, key = self.keys[user]
        await r.unlock(password=pw, key=key)
        return r

    async def setup(self):
        p = self.plan
        settings = {'chunking': {'min_length': p['chunking'][0], 'max_length': p['chunking'][1]},
                    'hashing': {'name': 'blake2b', 'length': p['hash_length']}}
        if p['encrypted']:
            settings['encryption'] = {'cipher': {'name': p['cipher']}, 'kdf': dict(KDF)}
            init = await self.repo().init(password=b'pw0', settings=settings)
            self.keys['u0'] = (b'pw0', init.key)
            r = await self.unlocked('u0')
            res = await r.add_key(password=b'pw1', settings={'encryption': {'kdf': dict(KDF)}}, shared=True)
            self.keys['u1'] = (b'pw1', res.new_key)       # same family, own key: sees u0's snapshots, cannot read them
            res = await self.repo().add_key(password=b'pw2', settings={'encryption': {'kdf': dict(KDF)}}, shared=False)
            self.keys['u2'] = (b'pw2', res.new_key)       # another family: invisible
        else:
            settings['encryption'] = None
            await self.repo().init(password=None, settings=settings)
            self.keys['u0'] = (None, None)

    def access(self, caller, rec):
        if not self.plan['encrypted'] or rec['user'] == caller:
            return 'Own'
        fam = {'u0': 0, 'u1': 0, 'u2': 1}
        return 'Family' if fam[rec['user']] == fam[caller] else 'Foreign'

    def present(self):
        return [r for r in self.recs if r['location'] in self.backend.objects]

    async def take_snapshot(self, i, spec):
        src = self.scratch / 'src'
        if src.exists():
            shutil.rmtree(src)
        src.mkdir(parents=True)
        truth = {}
        for rel, v in spec['files'].items():
            f = src / rel
            f.parent.mkdir(parents=True, exist_ok=True)
            data = content_of(v)
            f.write_bytes(data)
            os.utime(f, ns=(v['mtime_ns'], v['mtime_ns']))
            truth[str(f.resolve())] = (data, v['mtime_ns'])
        r = await self.unlocked(spec['user'])
        late = {str((src / rel).resolve()): (how, v) for rel, (how, v) in spec.get('late', {}).items()}
        if late:
            original, done = r.read_metadata, set()

            def read_metadata_after_late_write(file):
                target = os.readlink(f'/proc/self/fd/{file}') if isinstance(file, int) else str(file)
                if target in late and target not in done:
                    done.add(target)
                    how, n = late[target]
                    size = os.path.getsize(target)
                    with open(target, 'r+b') as other:
                        if how == 'append':
                            other.seek(0, 2)
                            other.write(bytes(range(256)) * (n // 256) + bytes(n % 256))
                        else:
                            other.truncate(max(0, size - n))
                    os.utime(target, ns=(truth[target][1], truth[target][1]))
                return original(file)
            r.read_metadata = read_metadata_after_late_write
        self.script.append(datetime(*spec['ts']))
        res = await asyncio.wait_for(r.snapshot(paths=[src], note=spec['note']), CMD_TIMEOUT)
        if self.script:
            raise RuntimeError('snapshot() did not read the clock through datetime.utcnow()')
        name, tag, location, sdata = res.name, res.tag, res.location, res.data
        style = spec.get('legacy')
        if style:
            # the same snapshot (chunks, files, ranges, digests, timestamp) as an older client recorded it,
            # written through the repository's own serialisation / encryption / naming
            sdata = copy.deepcopy(res.data)
            for fd in sdata['files']:
                m = dict(fd['metadata'])
                for k in ('st_atime', 'st_mtime', 'st_ctime'):
                    ns = m.pop(k + '_ns')
                    m[k] = ns // 10 ** 9 if style == 'int' else ns / 1e9
                fd['metadata'] = m
            blob = r._encrypt_snapshot_body({'chunks': list(res.chunks), 'data': sdata})
            name, tag = r._snapshot_digest_to_location_parts(r.props.hash_digest(blob))
            location = r.get_snapshot_location(name=name, tag=tag)
            self.backend.upload(location, blob)
            self.backend.delete(res.location)
        res = type('Snap', (), {'name': name, 'tag': tag, 'location': location, 'data': sdata})
        sid = i + 1
        files = []
        for j, fd in enumerate(res.data['files']):
            data, mt = truth[fd['path']]
            if sum(c['range'][1] - c['range'][0] for c in fd['chunks']) != len(data):
                self.viol('ranges_not_content', f'the chunk ranges recorded for {fd["path"][-20:]!r} add up to '
                          f'{sum(c["range"][1] - c["range"][0] for c in fd["chunks"])}, {len(data)} bytes were read')
            # what restore must set: the recorded value (whole seconds for the int flavour; the float flavour
            # goes through a double, allow a microsecond)
            tol = 0
            if style == 'int':
                mt = mt // 10 ** 9 * 10 ** 9
            elif style == 'float':
                tol = 1000
            files.append({'path': fd['path'], 'fid': sid * 100 + j, 'ranges': [list(c['range']) for c in fd['chunks']],
                          'content': data, 'mtime_ns': mt, 'mtime_tol': tol, 'meta': dict(fd['metadata']), 'digest': fd['digest']})
        rec = {'sid': sid, 'user': spec['user'], 'name': res.name, 'tag': res.tag, 'location': res.location,
               'ts_str': res.data['utc_timestamp'], 'ts': spec['ts'], 'dt': datetime(*spec['ts']), 'note': spec['note'], 'files': files}
        self.recs.append(rec)
        if sorted(truth) != sorted(f['path'] for f in files):
            self.viol('snapshot_file_set', f'snapshot recorded {len(files)} file(s), the tree has {len(truth)}')
        if rec['ts_str'] != fmt_dt(spec['ts']):
            self.viol('timestamp_format', f'stored utc_timestamp {rec["ts_str"]!r} is not str() of the instant {fmt_dt(spec["ts"])!r}')

    def resolve_sre(self, spec):
        if spec is None:
            return None
        out = []
        for s in spec:
            kind = s[0]
            rec = self.recs[s[1]] if kind != 'raw' else None
            if kind == 'raw':
                out.append(s[1])
            elif kind == 'exact':
                out.append('^' + rec['name'] + '$')
            elif kind == 'prefix':
                out.append('^' + rec['name'][:s[2]])
            elif kind == 'suffix':
                out.append(rec['name'][-s[2]:] + '$')
            elif kind == 'mid':
                out.append(rec['name'][s[2]:s[2] + 7])
            elif kind == 'location':
                out.append(re.escape(rec['location']))
            elif kind == 'tagprefix':
                out.append('^' + rec['tag'][:7])
            elif kind == 'upper':        # a spelling of the name that no listing prints
                out.append('^' + rec['name'].upper() + '$')
            elif kind == 'upperprefix':
                out.append('^' + rec['name'][:s[2]].upper())
            elif kind == 'notprefix':
                out.append('^(?!' + rec['name'][:5] + ')')
        return out

    @staticmethod
    def any_search(patterns, s):
        """the documented meaning of repeated -S/-F: matching ANY of the given regexes (re.search)"""
        return patterns is None or any(re.search(p, s) is not None for p in patterns)

    async def run_query(self, q):
        caller = q['caller'] if q['caller'] in self.keys else 'u0'
        present = self.present()
        ob = {'q': q, 'caller': caller, 'present': [r['sid'] for r in present]}
        self.obs.append(ob)
        op = q['op']
        if op in ('restore', 'ls', 'lf'):
            sre = self.resolve_sre(q['sre'])
            fre = q.get('fre')
            ob['sre'], ob['fre'] = sre, fre
            ob['stable'] = [r['name'] for r in self.recs if self.any_search(sre, r['name'])] if sre is not None else None
            allpaths = sorted({f['path'] for r in self.recs for f in r['files']})
            ob['ftable'] = [p for p in allpaths if self.any_search(fre, p)] if fre is not None else None
            r = await self.unlocked(caller)
            buf = io.StringIO()
            try:
                if op == 'restore':
                    out = self.scratch / f'out{self.nout}'
                    self.nout += 1
                    out.mkdir()
                    try:
                        res = await asyncio.wait_for(r.restore(snapshot_regex=self.combine(sre), file_regex=self.combine(fre), path=out), CMD_TIMEOUT)
                        ob['files'] = list(res.files)
                        tree = {}
                        for f in sorted(out.rglob('*')):
                            if f.is_file():
                                st = f.stat()
                                tree['/' + str(f.relative_to(out))] = (f.read_bytes(), st.st_mtime_ns)
                        ob['tree'] = tree
                    finally:
                        shutil.rmtree(out, ignore_errors=True)
                elif op == 'ls':
                    cols = None if q['cols'] is None else self.SC.parse_list(' , '.join(q['cols']))
                    with contextlib.redirect_stdout(buf):
                        await asyncio.wait_for(r.list_snapshots(snapshot_regex=self.combine(sre), header=q['header'], columns=cols), CMD_TIMEOUT)
                    ob['stdout'] = buf.getvalue()
                else:
                    cols = None if q['cols'] is None else self.FC.parse_list(','.join(q['cols']))
                    with contextlib.redirect_stdout(buf):
                        await asyncio.wait_for(r.list_files(snapshot_regex=self.combine(sre), file_regex=self.combine(fre), header=q['header'], columns=cols), CMD_TIMEOUT)
                    ob['stdout'] = buf.getvalue()
            except Exception as e:
                ob['error'] = f'{type(e).__name__}: {str(e)[:160]}'
                self.viol('exception', f'{op} raised {ob["error"]}', q, traceback.format_exc()[-1000:])
        elif op in ('delete', 'delete_bad'):
            own = [r for r in present if self.access(caller, r) == 'Own']
            r = await self.unlocked(caller)
            # the names come from the real listing output
            buf = io.StringIO()
            with contextlib.redirect_stdout(buf):
                await r.list_snapshots(header=False, columns=[self.SC.NAME, self.SC.TIMESTAMP])
            printed = [[c.rstrip(' ') for c in ln.split('\t')] for ln in buf.getvalue().splitlines() if ln.strip()]
            printed_own = [row[0] for row in printed if len(row) == 2 and row[1] != EMPTY]
            printed_other = [row[0] for row in printed if len(row) == 2 and row[1] == EMPTY]
            ob['printed'] = [row[0] for row in printed]
            if op == 'delete':
                if not printed_own:
                    ob['skipped'] = True
                    return
                rng = random.Random(q['pick'])
                names = rng.sample(printed_own, min(q['count'], len(printed_own)))
            else:
                rng = random.Random(q['pick'])
                base = rng.choice(own) if own else None
                how = q['how']
                foreign = [x for x in present if self.access(caller, x) == 'Foreign']
                if how == 'foreign' and foreign:
                    names = [rng.choice(foreign)['name']]
                elif how == 'otherkey' and printed_other:
                    names = [rng.choice(printed_other)] + ([base['name']] if base and rng.random() < 0.5 else [])
                elif base is None or how == 'random':
                    names = ['%064x' % rng.getrandbits(256)]
                elif how == 'mixed':
                    names = [base['name'], '%064x' % rng.getrandbits(256)]
                elif how == 'location':
                    names = [base['location']]
                elif how == 'truncated':
                    names = [base['name'][:-1]]
                elif how == 'upper':
                    names = [base['name'].upper()] if base['name'].upper() != base['name'] else [base['name'] + '0']
                elif how == 'tag':
                    names = [base['tag']] if base['tag'] != base['name'] else [base['name'] + '0']
                elif how == 'padded':
                    names = [' ' + base['name']]
                else:
                    names = ['%064x' % rng.getrandbits(256)]
                rng.shuffle(names)
            ob['names'] = names
            before = dict(self.backend.objects)
            r = await self.unlocked(caller)
            try:
                await asyncio.wait_for(r.delete_snapshots(list(names), confirm=False), CMD_TIMEOUT)
                ob['ok'] = True
            except self.ReplicatError as e:
                ob['ok'] = False
                ob['error'] = str(e)[:120]
            except Exception as e:
                ob['ok'] = False
                ob['error'] = f'{type(e).__name__}: {str(e)[:120]}'
                self.viol('delete_crash', f'delete raised {type(e).__name__} instead of succeeding or refusing', q, traceback.format_exc()[-800:])
            ob['changed'] = self.backend.objects != before
            ob['remaining'] = sorted(x['sid'] for x in self.present())

    async def go(self):
        class FakeDT(datetime):
            @classmethod
            def utcnow(cls):
                return self.script.pop(0)
        orig = self.RR.datetime
        self.RR.datetime = FakeDT
        try:
            await self.setup()
            for i, spec in enumerate(self.plan['snapshots']):
                if spec['user'] not in self.keys:
                    spec = dict(spec, user='u0')
                await self.take_snapshot(i, spec)
            for q in self.plan['queries']:
                await self.run_query(q)
        finally:
            self.RR.datetime = orig


def execute(plan, scratch: Path):
    ex = Exec(plan, scratch)
    scratch.mkdir(parents=True, exist_ok=True)
    old_tz = os.environ.get('TZ')
    try:
        if plan.get('tz'):
            os.environ['TZ'] = plan['tz']
            time.tzset()
        with contextlib.redirect_stderr(io.StringIO()), contextlib.redirect_stdout(io.StringIO()):
            asyncio.run(ex.go())
    except Exception as e:
        ex.viol('exception', f'history could not be executed: {type(e).__name__}: {str(e)[:160]}', None, traceback.format_exc()[-1200:])
        ex.failed = True
    finally:
        if plan.get('tz'):
            if old_tz is None:
                os.environ.pop('TZ', None)
            else:
                os.environ['TZ'] = old_tz
            time.tzset()
        shutil.rmtree(scratch, ignore_errors=True)
    return ex


# --------------------------------------------------------------------------- model side
def cs(s):
    assert all(32 <= ord(c) < 127 for c in s), s
    return core.coq_string(s)


def coq_snaps(ex, caller, sids):
    items = []
    for r in ex.recs:
        if r['sid'] not in sids:
            continue
        files = '; '.join('mkfile %s %d [%s]' % (cs(f['path']), f['fid'], '; '.join(f'({a}, {b})' for a, b in f['ranges'])) for f in r['files'])
        items.append('mksnap %s %d %s %s [%s]' % (cs(r['name']), r['sid'], cs(r['ts_str']), ex.access(caller, r), files))
    return '[' + ';\n   '.join(items) + ']'


def coq_filter(table):
    if table is None:
        return '(opt_match table_matches None)'
    return '(opt_match table_matches (Some [%s]))' % '; '.join(cs(s) for s in table)


def model_text(ex, tag):
    L = ['From Coq Require Import List NArith String.', 'From Replicat Require Import Model.Timestamp Model.Select.',
         'Import ListNotations.', 'Local Open Scope string_scope.', 'Local Open Scope N_scope.']
    L.append('Eval vm_compute in map render [%s].' % '; '.join('mkdt %d %d %d %d %d %d %d' % tuple(r['ts']) for r in ex.recs))
    views = {}
    for k, ob in enumerate(ex.obs):
        q = ob['q']
        key = (ob['caller'], tuple(ob['present']))
        if key not in views:
            views[key] = f'v{len(views)}'
            L.append('Definition %s : list snap :=\n  %s.' % (views[key], coq_snaps(ex, ob['caller'], set(ob['present']))))
        v = views[key]
        if q['op'] == 'restore':
            L.append(f'Eval vm_compute in map f_id (restore_sel {coq_filter(ob["stable"])} {coq_filter(ob["ftable"])} {v}).')
        elif q['op'] == 'ls':
            cols = '[' + '; '.join(SCOL_COQ[c] for c in (q['cols'] if q['cols'] is not None else SDEFAULT)) + ']'
            L.append(f'Eval vm_compute in ls_rows {coq_filter(ob["stable"])} {cols} {v}.')
        elif q['op'] == 'lf':
            cols = '[' + '; '.join(FCOL_COQ[c] for c in (q['cols'] if q['cols'] is not None else FDEFAULT)) + ']'
            L.append(f'Eval vm_compute in lf_rows {coq_filter(ob["stable"])} {coq_filter(ob["ftable"])} {cols} {v}.')
        elif 'names' in ob:
            names = '[' + '; '.join(cs(n) for n in ob['names']) + ']'
            L.append(f'Eval vm_compute in (let r := delete_names {names} {v} in (map s_id (fst r), snd r)).')
    return '\n'.join(L) + '\n'


def run_models(execs):
    jobs = [(f'c15_{i}', model_text(ex, i)) for i, ex in enumerate(execs)]
    res = core.coq_eval_files(jobs, timeout=600)
    out = []
    for name, _ in jobs:
        rc, text = res[name]
        if rc != 0:
            out.append((None, text[-1500:]))
            continue
        out.append(([core.parse_coq_term(v) for v in core.parse_coq_values(text)], ''))
    return out


# --------------------------------------------------------------------------- comparing
def parse_table(stdout, ncols):
    # one print() per row; a row may be blank (e.g. only the NOTE column and every note is '')
    lines = stdout.split('\n')[:-1] if stdout.endswith('\n') else stdout.split('\n')
    return [[c.rstrip(' ') for c in ln.split('\t')] for ln in lines] if stdout else []


def render_cell(ex, cell):
    """expected text of a model cell; None = not comparable"""
    if cell == 'CNone':
        return EMPTY
    kind = cell[0]
    if kind == 'CStr':
        return cell[1]
    if kind == 'CNum':
        return str(cell[1])
    if kind == 'CSize':
        return fmt_size(cell[1], cell[2], cell[3])
    if kind == 'CRef':
        what, ident = cell[1], cell[2]
        if what == 'note':
            note = next(r['note'] for r in ex.recs if r['sid'] == ident)
            return EMPTY if note is None else note
        f = next(f for r in ex.recs for f in r['files'] if f['fid'] == ident)
        if what == 'digest':
            return hashlib.blake2b(f['content'], digest_size=ex.plan['hash_length']).hexdigest()
        return time_cell(f, what)
    raise ValueError(cell)


def compare_listing(ex, ob, model_rows, rep, labels, default, unreadable_tail):
    q = ob['q']
    cols = q['cols'] if q['cols'] is not None else default
    dcols = list(dict.fromkeys(cols))
    rows = parse_table(ob['stdout'], len(dcols))
    what = 'list-snapshots' if q['op'] == 'ls' else 'list-files'
    if q['header'] and rows:
        head = [c.strip() for c in rows[0]]
        rows = rows[1:]
        if head != [labels[c] for c in dcols]:
            return f'{what}: header {head} for columns {dcols}'
    if not model_rows and ob['stdout']:
        return f'{what}: model lists nothing, implementation printed {len(rows)} row(s)'
    expected = [[render_cell(ex, c) for c in cells] for _, cells in model_rows]
    if len(rows) != len(expected):
        return f'{what}: {len(rows)} row(s) printed, model has {len(expected)}'

    def same(row, exp):
        return len(row) == len(exp) and all(e is None or r == e for r, e in zip(row, exp))
    if unreadable_tail:
        # rows without details have equal keys (''): their relative order is the load order
        nread = sum(1 for ident, _ in model_rows if ex_access_by_sid(ex, ob, ident) == 'Own')
        head_ok = all(same(r, e) for r, e in zip(rows[:nread], expected[:nread]))
        tail_ok = sorted(map(tuple, rows[nread:])) == sorted(map(tuple, expected[nread:]))
        if not (head_ok and tail_ok):
            return f'{what}: rows differ: printed {rows[:6]} model {expected[:6]} (columns {dcols})'
        return None
    for k, (r, e) in enumerate(zip(rows, expected)):
        if not same(r, e):
            return f'{what}: row {k} differs: printed {r} model {e} (columns {dcols})'
    return None


def ex_access_by_sid(ex, ob, sid):
    return ex.access(ob['caller'], next(r for r in ex.recs if r['sid'] == sid))


def oracle(ex, ob, rep):
    """Model-free: the property statement evaluated directly on ground truth."""
    q = ob['q']
    op = q['op']
    caller = ob['caller']
    present = [r for r in ex.recs if r['sid'] in ob['present']]
    if op in ('restore', 'ls', 'lf') and 'error' in ob:
        return
    if op == 'restore':
        cands = [r for r in present if ex.access(caller, r) == 'Own' and Exec.any_search(ob['sre'], r['name'])]
        want = {}
        for r in cands:
            for f in r['files']:
                if not Exec.any_search(ob['fre'], f['path']):
                    continue
                if f['path'] not in want or r['dt'] > want[f['path']][0]:      # chronological, not textual
                    want[f['path']] = (r['dt'], f, r)
        tree = ob['tree']
        if sorted(ob['files']) != sorted(want) or len(ob['files']) != len(set(ob['files'])):
            extra, missing = sorted(set(ob['files']) - set(want)), sorted(set(want) - set(ob['files']))
            ex.viol('restore_path_set', f'restore reports {len(ob["files"])} path(s), {len(want)} match the filters in a readable matching snapshot '
                    f'(extra {[p[-14:] for p in extra[:3]]}, missing {[p[-14:] for p in missing[:3]]})', q)
        for p in sorted(set(tree) - set(want)):
            ex.viol('restore_extra', f'restore wrote {p[-24:]!r}, which no filter/snapshot selection asks for', q)
        for p, (_, f, r) in sorted(want.items()):
            if p not in tree:
                ex.viol('restore_missing', f'restore did not write {p[-24:]!r} (newest matching snapshot {r["name"][:8]})', q)
            elif not same_version(tree[p], f):
                older = [x for x in cands for g in x['files'] if g['path'] == p and same_version(tree[p], g)]
                ex.viol('restore_wrong_version' if older or tree[p][0] != f['content'] else 'restore_wrong_mtime',
                        (f'{p[-24:]!r} restored with mtime {tree[p][1]}, the snapshot records {f["mtime_ns"]} (+-{f.get("mtime_tol", 0)}ns); ' if not older and tree[p][0] == f['content'] else '') +
                        f'{p[-24:]!r} restored from {older[0]["ts_str"] if older else "an unknown version"}, '
                        f'the newest matching snapshot containing it is {r["ts_str"]}', q)
    elif op in ('ls', 'lf'):
        cols = q['cols'] if q['cols'] is not None else (SDEFAULT if op == 'ls' else FDEFAULT)
        dcols = list(dict.fromkeys(cols))
        rows = parse_table(ob['stdout'], len(dcols))
        col = {c: k for k, c in enumerate(dcols)}
        if q['header'] and rows:
            # a table with headings is read by its headings
            labels = SLABEL if op == 'ls' else FLABEL
            head = [c.strip() for c in rows[0]]
            rows = rows[1:]
            want_head = [labels[c] for c in dcols]
            if sorted(head) != sorted(want_head):
                ex.viol('listing_header', f'{op}: headings {head} for the selected columns {dcols}', q)
                return
            if head != want_head and rows:
                k = next(i for i, (a, b) in enumerate(zip(head, want_head)) if a != b)
                ex.viol('listing_header', f'{op}: the heading over column {k + 1} reads {head[k]!r} but the cells below it are the '
                        f'{want_head[k]!r} values (e.g. {rows[0][k]!r}); selection {dcols}', q)
            col = {c: head.index(labels[c]) for c in dcols}
        if any(len(r) != len(dcols) for r in rows):
            ex.viol('listing_shape', f'{op}: a row does not have {len(dcols)} cell(s)', q)
            return
        if op == 'ls':
            vis = [r for r in present if ex.access(caller, r) != 'Foreign' and Exec.any_search(ob['sre'], r['name'])]
            if len(rows) != len(vis):
                ex.viol('ls_row_count', f'list-snapshots printed {len(rows)} row(s); {len(vis)} snapshot(s) of the caller\'s family match the filter', q)
                return
            by_name = {r['name']: r for r in vis}
            if 'name' in col:
                names = [r[col['name']] for r in rows]
                if sorted(names) != sorted(by_name):
                    ex.viol('ls_names', 'list-snapshots names differ from the matching snapshots of the family', q)
                    return
                seq = [by_name[n] for n in names]
                read = [r for r in seq if ex.access(caller, r) == 'Own']
                if seq[:len(read)] != read:
                    ex.viol('ls_order', 'a snapshot without readable details is listed before a readable one', q)
                if any(a['dt'] < b['dt'] for a, b in zip(read, read[1:])):
                    ex.viol('ls_order', 'list-snapshots is not newest first: ' + ' , '.join(r['ts_str'] for r in read), q)
                for r, row in zip(seq, rows):
                    own = ex.access(caller, r) == 'Own'
                    if 'size' in col:
                        total = sum(len(f['content']) for f in r['files'])
                        want = fmt_size(total, *unit_of(total)) if own else EMPTY
                        if want is not None and row[col['size']] != want:
                            ex.viol('ls_size', f'SIZE of snapshot {r["name"][:8]} printed {row[col["size"]]!r}, its files total {total} bytes ({want})', q)
                    if 'file_count' in col and row[col['file_count']] != (str(len(r['files'])) if own else EMPTY):
                        ex.viol('ls_count', f'FILES of snapshot {r["name"][:8]} printed {row[col["file_count"]]!r}, it has {len(r["files"])}', q)
                    if 'timestamp' in col and row[col['timestamp']] != (fmt_dt(r['ts'][:6] + [0]) if own else EMPTY):
                        ex.viol('ls_timestamp', f'TIMESTAMP of snapshot {r["name"][:8]} printed {row[col["timestamp"]]!r}, taken at {r["ts_str"]}', q)
                    if 'note' in col and row[col['note']] != ((EMPTY if r['note'] is None else r['note']) if own else EMPTY):
                        ex.viol('ls_note', f'NOTE of snapshot {r["name"][:8]} printed {row[col["note"]]!r}', q)
        else:
            srcs = [r for r in present if ex.access(caller, r) == 'Own' and Exec.any_search(ob['sre'], r['name'])]
            want = [(r, f) for r in srcs for f in r['files'] if Exec.any_search(ob['fre'], f['path'])]
            if len(rows) != len(want):
                ex.viol('lf_row_count', f'list-files printed {len(rows)} row(s); {len(want)} file(s) of readable matching snapshots match the file filter', q)
                return
            if 'path' in col and ('snapshot_name' in col or 'snapshot_date' in col):
                keyed = {}
                for r, f in want:
                    keyed[((r['name'] if 'snapshot_name' in col else fmt_dt(r['ts'][:6] + [0])), f['path'])] = (r, f)
                same_second = len(keyed) != len(want)
                seq = []
                for row in rows:
                    k = ((row[col['snapshot_name']] if 'snapshot_name' in col else row[col['snapshot_date']]), row[col['path']])
                    if k not in keyed:
                        ex.viol('lf_rows', f'list-files printed a row for {k[1][-20:]!r} of {k[0][:19]!r} that is not a matching file of a readable matching snapshot', q)
                        return
                    seq.append(keyed[k])
                if not same_second:
                    if any(a[0]['dt'] < b[0]['dt'] for a, b in zip(seq, seq[1:])):
                        ex.viol('lf_order', 'list-files is not newest first', q)
                    for (r, f), row in zip(seq, rows):
                        n = len(f['content'])
                        if 'size' in col and row[col['size']] != fmt_size(n, *unit_of(n)):
                            ex.viol('lf_size', f'SIZE of {f["path"][-20:]!r} printed {row[col["size"]]!r}, the file has {n} bytes', q)
                        if 'digest' in col and row[col['digest']] != hashlib.blake2b(f['content'], digest_size=ex.plan['hash_length']).hexdigest():
                            ex.viol('lf_digest', f'DIGEST of {f["path"][-20:]!r} is not the digest of its content', q)
                        for what, label in (('mtime', 'MODIFIED AT'), ('atime', 'ACCESSED AT'), ('ctime', 'CREATED AT')):
                            want_t = time_cell(f, what) if what in col else None
                            if want_t is not None and row[col[what]] != want_t:
                                fmtname = 'pre-1.3 seconds' if 'st_mtime' in f['meta'] else 'nanoseconds'
                                ex.viol('lf_' + what, f'{label} of {f["path"][-20:]!r} printed {row[col[what]]!r}, the snapshot records {want_t!r} ({fmtname} format)', q)
                        if 'snapshot_date' in col and row[col['snapshot_date']] != fmt_dt(r['ts'][:6] + [0]):
                            ex.viol('lf_date', f'SNAPSHOT DATE printed {row[col["snapshot_date"]]!r} for a snapshot taken at {r["ts_str"]}', q)
    elif op == 'delete' and 'names' in ob:
        if not ob['ok']:
            ex.viol('delete_printed_name_refused', f'delete refused name(s) printed by list-snapshots for the caller\'s own snapshots: {ob.get("error")}', q)
        else:
            gone = set(ob['present']) - set(ob['remaining'])
            named = {r['sid'] for r in present if r['name'] in ob['names']}
            if gone != named:
                ex.viol('delete_effect', f'delete of {len(named)} printed name(s) removed snapshots {sorted(gone)}, named {sorted(named)}', q)
    elif op == 'delete_bad' and 'names' in ob:
        if ob['ok']:
            ex.viol('delete_unknown_accepted', f'delete accepted a name list containing a name list-snapshots does not print as the caller\'s own ({q["how"]})', q)
        if ob['changed']:
            ex.viol('delete_refused_mutated', f'a refused delete changed the repository ({q["how"]})', q)


def compare(ex, values, rep: Report):
    """model values (in the order model_text emitted them) against the observations"""
    it = iter(values)
    rendered = next(it)
    for r, m in zip(ex.recs, rendered):
        rep.traces_validated += 1
        if m != r['ts_str']:
            rep.disagreements.append({'what': f'timestamp rendering differs: model {m!r} implementation {r["ts_str"]!r}', 'replay': {'plan': ex.plan}})
    for ob in ex.obs:
        q = ob['q']
        if q['op'] in ('delete', 'delete_bad') and 'names' not in ob:
            continue
        m = next(it)
        if 'error' in ob:
            continue
        rep.traces_validated += 1
        msg = None
        if q['op'] == 'restore':
            fid_path = {f['fid']: f for r in ex.recs for f in r['files']}
            mpaths = [fid_path[i]['path'] for i in m]
            if mpaths != ob['files']:
                msg = f'restore selection differs: model {[p[-12:] for p in mpaths]} implementation {[p[-12:] for p in ob["files"]]}'
            else:
                want = {fid_path[i]['path']: fid_path[i] for i in m}
                bad = [p for p in set(want) | set(ob['tree']) if p not in want or not same_version(ob['tree'].get(p), want[p])]
                if bad:
                    msg = f'restored tree differs from the model\'s selection at {[p[-16:] for p in sorted(bad)[:3]]}'
        elif q['op'] == 'ls':
            msg = compare_listing(ex, ob, m, rep, SLABEL, SDEFAULT, True)
        elif q['op'] == 'lf':
            msg = compare_listing(ex, ob, m, rep, FLABEL, FDEFAULT, False)
        else:
            ids, ok = m
            if ok != ob['ok']:
                msg = f'delete outcome differs: model ok={ok} implementation ok={ob["ok"]} ({ob.get("error")})'
            elif sorted(ids) != ob['remaining']:
                msg = f'snapshots remaining after delete differ: model {sorted(ids)} implementation {ob["remaining"]}'
        if msg:
            rep.disagreements.append({'what': msg, 'replay': {'plan': ex.plan, 'query': q, 'sre': ob.get('sre'), 'fre': ob.get('fre')}})


# --------------------------------------------------------------------------- the known finding's probe
def probe_regex_combination(scratch: Path, rep: Report):
    """Repeated -S/-F patterns are joined by '|' (utils.combine_regexes): numbered back-references
    and inline global flags change meaning / are rejected.  Runs the real CLI-level combination and
    a real restore; reports the violation (matched by known finding C15-regex-combination)."""
    from replicat.__main__ import _combine_optional_regexes
    from replicat.repository import Repository

    async def go():
        be = MemBackend()
        r = Repository(be, concurrent=1, quiet=True, cache_directory=None)
        await r.init(password=None, settings={'encryption': None, 'chunking': {'min_length': 16, 'max_length': 64}})
        src = scratch / 'probe-src'
        src.mkdir(parents=True)
        for n in ('pxx.txt', 'pyy.txt', 'ABC.txt'):
            (src / n).write_bytes(n.encode())
        r = Repository(be, concurrent=1, quiet=True, cache_directory=None)
        await r.unlock()
        await r.snapshot(paths=[src])
        found = []
        for ps, subject in ((['(x)\\1', '(y)\\1'], 'pyy.txt'), (['x', '(?i)abc'], 'ABC.txt')):
            each = [p for p in ps if re.search(p, str(src / subject))]
            out = scratch / f'probe-out{len(found)}'
            out.mkdir()
            r = Repository(be, concurrent=1, quiet=True, cache_directory=None)
            await r.unlock()
            try:
                res = await r.restore(file_regex=_combine_optional_regexes(ps), path=out)
                got = [Path(p).name for p in res.files]
                outcome = f'restored {sorted(got)}'
                bad = bool(each) and subject not in got
            except re.error as e:
                outcome = f're.error: {e}'
                bad = bool(each)
            found.append((ps, subject, each, outcome, bad))
            shutil.rmtree(out, ignore_errors=True)
        shutil.rmtree(src, ignore_errors=True)
        return found
    with contextlib.redirect_stderr(io.StringIO()), contextlib.redirect_stdout(io.StringIO()):
        found = asyncio.run(go())
    for ps, subject, each, outcome, bad in found:
        rep.count('probe=regex_combination')
        if bad:
            rep.violations.append({
                'what': f'-F {" -F ".join(ps)}: {subject!r} matches {each} on its own, but with the patterns combined by "|" restore {outcome}',
                'signature': {'kind': 'regex_combination', 'patterns': ps},
                'replay': {'probe': 'regex_combination', 'patterns': ps, 'subject': subject}})


def probe_bytes_to_human(rep: Report):
    """The size formatter at and around every unit boundary (function level: 10**9 bytes are not
    affordable as files): the printed text must be the independently formatted one, use the unit of
    the model's bth_unit, and convert back to the value within printing precision."""
    from replicat.utils import bytes_to_human
    values = [0, 1, 9, 10, 99, 100, 999, 1000, 1001, 1004, 1005, 1006, 9999, 10_000, 99_999, 100_000, 999_994, 999_995, 999_999,
              10 ** 6, 10 ** 6 + 1, 1_005_000, 10 ** 7, 999_999_999, 10 ** 9 - 5_000_001, 10 ** 9, 10 ** 9 + 1, 1_500_000_000, 10 ** 10, 123_456_789_012]
    res = core.coq_eval_files([('c15_bth', 'From Coq Require Import List NArith String.\nFrom Replicat Require Import Model.Select.\n'
                                'Import ListNotations.\nLocal Open Scope N_scope.\nEval vm_compute in map bth_unit [%s].\n' % '; '.join(map(str, values)))])
    rc, text = res['c15_bth']
    model = core.parse_coq_term(core.parse_coq_values(text)[-1]) if rc == 0 else None
    if model is None:
        rep.disagreements.append({'what': 'the model of bytes_to_human could not be evaluated: ' + text[-600:], 'replay': None})
    for k, v in enumerate(values):
        rep.count('probe=bytes_to_human')
        got = bytes_to_human(v)
        d, u = unit_of(v)
        want = fmt_size(v, d, u)
        m = re.fullmatch(r'([0-9]+(?:\.[0-9]+)?(?:e\+[0-9]+)?)([BKMG])', got)
        back = float(m.group(1)) * {'B': 1, 'K': 10 ** 3, 'M': 10 ** 6, 'G': 10 ** 9}[m.group(2)] if m else None
        # two decimal places of the unit, six significant digits
        ok_back = back is not None and abs(back - v) <= max(0.005 * d, v * 5e-6) * (1 + 1e-9)
        if (want is not None and got != want) or not ok_back:
            rep.violations.append({'what': f'bytes_to_human({v}) = {got!r}: ' + (f'expected {want!r}' if want is not None and got != want else '')
                                   + ('' if ok_back else f' reads back as {back} bytes'),
                                   'signature': {'kind': 'bytes_to_human', 'value': v}, 'replay': {'probe': 'bytes_to_human', 'value': v}})
        if model is not None:
            rep.traces_validated += 1
            if m and (model[k][0], model[k][1]) != ({'B': 1, 'K': 10 ** 3, 'M': 10 ** 6, 'G': 10 ** 9}[m.group(2)], m.group(2)):
                rep.disagreements.append({'what': f'bytes_to_human({v}) = {got!r}, model unit {model[k]}', 'replay': {'probe': 'bytes_to_human', 'value': v}})


# --------------------------------------------------------------------------- the check
RULE = ('case = one history: 2-8 snapshots by up to 3 users (own / same family other key / other family) of an evolving tree '
        '(paths appear, change, keep content with a new mtime, disappear; path pairs differing only by case; identical copies, all-zero and repeated-block files; some files appended to / truncated between being read and being stat-ed; a quarter of the snapshots re-recorded in the pre-1.3 seconds metadata format) at scripted pairwise distinct utcnow() instants '
        '(same second different microseconds incl. 0, second...year roll-overs, years 1..9999, not in chronological order; one history in six under a daylight-saving TZ with readings in the skipped / repeated hour), '
        'then restore / list-snapshots / list-files queries with 0-3 snapshot and file patterns each (some with numbered / named back-references) and every kind of column '
        'selection, refused deletes, a delete by printed names, and the queries again; non-trivial = at least two readable '
        'snapshots share a path with different versions; distinct = distinct plan')


def nontrivial(plan):
    seen = {}
    for s in plan['snapshots']:
        if s['user'] != 'u0':
            continue
        for p, v in s['files'].items():
            if p in seen and seen[p] != (v['seed'], v['mtime_ns']):
                return True
            seen.setdefault(p, (v['seed'], v['mtime_ns']))
    return False


def check_plans(plans, scratch: Path, rep: Report, with_model=True):
    execs = []
    for plan in plans:
        ex = execute(plan, scratch / f'h{plan["idx"]}')
        execs.append(ex)
        rep.case(repr(plan), nontrivial=nontrivial(plan))
        rep.count('encrypted' if plan['encrypted'] else 'unencrypted')
        rep.count(f'snapshots={len(plan["snapshots"])}')
        rep.count('tz=' + (plan.get('tz') or 'unset').split(',')[0])
        rep.count('loader_threads' + ('<' if plan['concurrent'] < len(plan['snapshots']) else '>=') + 'snapshots' + (',slow' if plan.get('slow_snapshot_downloads') else ''))
        if any(len({(v['seed'], v['size'], v.get('kind')) for v in sn['files'].values()}) < len(sn['files']) for sn in plan['snapshots']):
            rep.count('identical_copies')
        if any(v.get('kind') in ('zeros', 'rep') and v['size'] > 200 for sn in plan['snapshots'] for v in sn['files'].values()):
            rep.count('repeated_block_files')
        if any(len({q.lower() for q in sn['files']}) < len(sn['files']) for sn in plan['snapshots']):
            rep.count('case_only_path_pairs')
        for s in plan['snapshots']:
            rep.count('metadata=' + (('pre-1.3 ' + s['legacy']) if s.get('legacy') else 'ns'))
            for how, _ in s.get('late', {}).values():
                rep.count('late_write=' + how)
            rep.count('by=' + s['user'])
            rep.count('microsecond=0' if s['ts'][6] == 0 else 'microsecond>0')
        for ob in ex.obs:
            q = ob['q']
            rep.count('op=' + q['op'])
            if q['op'] in ('restore', 'ls', 'lf'):
                rep.count('sre=' + ('none' if q['sre'] is None else '+'.join(s[0] for s in q['sre'])))
                if q['op'] != 'ls':
                    rep.count('fre=' + ('none' if q['fre'] is None else str(len(q['fre']))))
            if q['op'] in ('ls', 'lf'):
                rep.count('columns=' + ('default' if q['cols'] is None else str(len(q['cols']))))
            if q['op'] == 'delete_bad':
                rep.count('bad_name=' + q['how'])
            oracle(ex, ob, rep)
        rep.violations += ex.violations
        rep.sample({'encrypted': plan['encrypted'], 'snapshots': [(s['user'], fmt_dt(s['ts']), sorted(s['files'])) for s in plan['snapshots']][:8],
                    'queries': [{k: v for k, v in q.items() if k != 'phase'} for q in plan['queries'][:6]]}, limit=3)
    if with_model:
        live = [ex for ex in execs if not getattr(ex, 'failed', False)]
        for ex, (vals, err) in zip(live, run_models(live)):
            if vals is None:
                rep.disagreements.append({'what': 'the model could not be evaluated: ' + err, 'replay': {'plan': ex.plan}})
                continue
            try:
                compare(ex, vals, rep)
            except StopIteration:
                rep.disagreements.append({'what': 'the model produced fewer values than queries', 'replay': {'plan': ex.plan}})
    return execs


def run(ctx) -> Report:
    rep = Report(rule=RULE)
    n = ctx.scale(46, 700)
    nbig = ctx.scale(2, 12)
    plans = [gen_plan(ctx.rng, i, big=i < nbig) for i in range(n)]
    check_plans(plans, ctx.scratch, rep)
    probe_regex_combination(ctx.scratch, rep)
    probe_bytes_to_human(rep)
    rep.notes.append('two snapshots with textually equal timestamps are outside the property\'s quantifier and are not generated; '
                     'restore and the listings then fall back to the (unordered) load order')
    return rep


def search(ctx, broken) -> Report:
    """Large model-free search (oracles only) when a proof, a tie or the correspondence broke."""
    rep = Report(rule=RULE)
    seeds = [b['case']['plan'] for b in broken if isinstance(b.get('case'), dict) and isinstance(b['case'].get('plan'), dict)]
    plans = seeds[:10] + [gen_plan(ctx.rng, 1000 + i, big=False) for i in range(150)]
    for k, p in enumerate(plans):
        p['idx'] = 1000 + k
    check_plans(plans, ctx.scratch, rep, with_model=False)
    return rep


def replay(ctx, obj):
    rep = Report(rule=RULE)
    case = obj.get('replay') or {}
    if case.get('probe') == 'regex_combination':
        probe_regex_combination(ctx.scratch, rep)
    elif case.get('probe') == 'bytes_to_human':
        probe_bytes_to_human(rep)
    elif isinstance(case.get('plan'), dict):
        check_plans([case['plan']], ctx.scratch, rep)
    elif obj.get('kind') == 'broken-obligation':
        plans = [b['case']['plan'] for b in obj.get('broken', []) if isinstance(b.get('case'), dict) and isinstance(b['case'].get('plan'), dict)]
        if not plans:
            print('replay file names a proof/tie obligation, no input to re-run:', [b.get('what') for b in obj.get('broken', [])])
            return 0
        check_plans(plans[:5], ctx.scratch, rep)
    else:
        print('replay file does not carry a C15 case')
        return 0
    for v in rep.violations:
        print('VIOLATION-REPRODUCED', v['what'])
    for d in rep.disagreements:
        print('DISAGREEMENT-REPRODUCED', d['what'])
    return 1 if rep.violations or rep.disagreements else 0
