"""Common machinery of every check: Coq build + Print Assumptions (A), translator (B1),
running Gallina on generated cases inside coqc (B2 model side), evidence, known findings,
VIOLATION / KNOWN-FINDING protocol.  See DESIGN.md sections 1-2."""
from __future__ import annotations

import fcntl
import hashlib
import json
import os
import random
import re
import shutil
import subprocess
import sys
import tempfile
import time
from concurrent.futures import ThreadPoolExecutor
from dataclasses import dataclass, field
from pathlib import Path

ROOT = Path(os.environ.get('VERIF_ROOT') or Path(__file__).resolve().parent.parent)
REPO = Path(os.environ.get('VERIF_REPO', '/repo'))
COQ = ROOT / 'coq'
PY = '/venv/bin/python'
NCPU = int(os.environ.get('VERIF_JOBS', '16'))

PYSHIM = ROOT / 'native' / 'pyshim'
IMPL_ENV = {
    'PYTHONPATH': f'{PYSHIM}:{REPO}:{ROOT}',
    'PYTHONHASHSEED': '0',
    'PIP_NO_INDEX': '1',
    'VAULTAH_REPLICAT_VERIF': '1',
    'PYTHONDONTWRITEBYTECODE': '1',
}


def log(*a):
    print('[check]', *a, file=sys.stderr, flush=True)


# --------------------------------------------------------------------------- scratch
class Scratch:
    """Scratch directory outside /repo and /verif, removed on exit."""

    def __init__(self, tag):
        base = os.environ.get('VERIF_SCRATCH', '/var/tmp')
        self.path = Path(tempfile.mkdtemp(prefix=f'verif-{tag}-', dir=base))

    def __enter__(self):
        return self.path

    def __exit__(self, *exc):
        shutil.rmtree(self.path, ignore_errors=True)


# --------------------------------------------------------------------------- report objects
@dataclass
class Report:
    """What a property harness returns."""
    evaluations: int = 0
    nontrivial: set = field(default_factory=set)      # hashes of distinct non-trivial cases
    rule: str = ''
    samples: list = field(default_factory=list)
    dist: dict = field(default_factory=dict)           # input distribution counters
    violations: list = field(default_factory=list)     # property fails on the real code: {what, signature, replay}
    disagreements: list = field(default_factory=list)  # model != implementation: {what, replay}
    traces_validated: int = 0
    notes: list = field(default_factory=list)
    extra: dict = field(default_factory=dict)

    def count(self, key, n=1):
        self.dist[key] = self.dist.get(key, 0) + n

    def case(self, obj, nontrivial=True):
        self.evaluations += 1
        if nontrivial:
            self.nontrivial.add(hashlib.sha1(repr(obj).encode()).hexdigest())

    def sample(self, obj, limit=4):
        if len(self.samples) < limit:
            self.samples.append(obj)

    def merge(self, other: 'Report'):
        self.evaluations += other.evaluations
        self.nontrivial |= other.nontrivial
        for k, v in other.dist.items():
            self.count(k, v)
        self.violations += other.violations
        self.disagreements += other.disagreements
        self.traces_validated += other.traces_validated
        self.notes += other.notes
        for s in other.samples:
            self.sample(s)
        self.extra.update(other.extra)


@dataclass
class Ctx:
    pid: str
    tier: str
    seed: int
    scratch: Path
    rng: random.Random
    deep: bool = False          # proof/tie broke: spend the large search budget

    def scale(self, quick, thorough, deep=None):
        if self.deep and deep is not None:
            return deep
        return thorough if self.tier == 'thorough' else quick


# --------------------------------------------------------------------------- Coq build
def _run(cmd, cwd=None, timeout=900, env=None):
    e = dict(os.environ)
    if env:
        e.update(env)
    try:
        p = subprocess.run(cmd, cwd=cwd, env=e, stdout=subprocess.PIPE, stderr=subprocess.STDOUT,
                           timeout=timeout, text=True, errors='replace')
        return p.returncode, p.stdout
    except subprocess.TimeoutExpired as ex:
        out = ex.stdout.decode(errors='replace') if isinstance(ex.stdout, bytes) else (ex.stdout or '')
        return 124, out + f'\n[timeout after {timeout}s]'


class CoqLock:
    def __enter__(self):
        self.f = open(COQ / '.lock', 'w')
        fcntl.flock(self.f, fcntl.LOCK_EX)
        return self

    def __exit__(self, *exc):
        fcntl.flock(self.f, fcntl.LOCK_UN)
        self.f.close()


def coq_sources():
    out = []
    for d in ('Lib', 'Model', 'Gen', 'Proofs', 'Props'):
        out += sorted(str(p.relative_to(COQ)) for p in (COQ / d).glob('*.v'))
    return out


def regenerate_gen():
    """B1: run the translator; rewrites coq/Gen/*.v only when their text changed."""
    rc, out = _run([PY, str(ROOT / 'translate' / 'gen.py')], cwd=str(ROOT), timeout=120, env=IMPL_ENV)
    return rc == 0, out


def ensure_makefile():
    srcs = coq_sources()
    stamp = COQ / '.Makefile.srcs'
    want = '\n'.join(srcs)
    if not (COQ / 'Makefile').exists() or not stamp.exists() or stamp.read_text() != want:
        rc, out = _run(['coq_makefile', '-f', '_CoqProject', *srcs, '-o', 'Makefile'], cwd=str(COQ))
        if rc != 0:
            raise RuntimeError('coq_makefile failed: ' + out)
        stamp.write_text(want)


def coq_make(targets, timeout=1500):
    ensure_makefile()
    return _run(['make', f'-j{NCPU}', '-k', *targets], cwd=str(COQ), timeout=timeout)


def coq_deps_closure(vfile):
    """Transitive closure of project .v files needed by vfile (relative to coq/), via coqdep."""
    rc, out = _run(['coqdep', '-f', '_CoqProject', *coq_sources()], cwd=str(COQ))
    deps = {}
    for line in out.splitlines():
        if ':' not in line:
            continue
        lhs, rhs = line.split(':', 1)
        tgt = [t for t in lhs.split() if t.endswith('.vo')]
        if not tgt:
            continue
        v = tgt[0][:-1]
        deps[v] = [d[:-1] for d in rhs.split() if d.endswith('.vo')]
    seen, todo = set(), [vfile]
    while todo:
        v = todo.pop()
        if v in seen:
            continue
        seen.add(v)
        todo += deps.get(v, [])
    return sorted(seen)


_STMT = re.compile(r'^\s*(Theorem|Lemma|Corollary|Example|Fact|Remark|Proposition)\s+([A-Za-z0-9_\']+)', re.M)
_BAD = re.compile(r'\b(Admitted|admit|Axiom|Axioms|Parameter|Parameters|Conjecture|Conjectures|Admit Obligations|'
                  r'bypass_check|Unset Guard Checking|Unset Positivity Checking|Unset Universe Checking|type-in-type|impredicative-set)\b')


def strip_comments(text):
    out, depth, i = [], 0, 0
    while i < len(text):
        if text.startswith('(*', i):
            depth += 1; i += 2
        elif text.startswith('*)', i) and depth:
            depth -= 1; i += 2
        else:
            if not depth:
                out.append(text[i])
            i += 1
    return ''.join(out)


def lint(files):
    """No Admitted/admit/Axiom/Parameter/... and no Variable/Hypothesis outside a section."""
    problems = []
    for f in files:
        text = strip_comments((COQ / f).read_text())
        for m in _BAD.finditer(text):
            problems.append(f'{f}: forbidden keyword {m.group(1)!r}')
        depth = 0
        for line in text.splitlines():
            s = line.strip()
            if re.match(r'(Section|Module Type|Module)\s+\w+\s*\.', s) and s.startswith('Section'):
                depth += 1
            elif re.match(r'End\s+\w+\s*\.', s) and depth:
                depth -= 1
            elif depth == 0 and re.match(r'(Variable|Variables|Hypothesis|Hypotheses|Context)\b', s):
                problems.append(f'{f}: {s.split()[0]} outside a section')
    return problems


def parse_assumptions(out):
    """Parse coqc stdout of a Props file: sequence of Print Assumptions answers."""
    results = []
    blocks = re.split(r'(?=Closed under the global context|Axioms:|Section Variables:)', out)
    for b in blocks:
        if b.startswith('Closed under the global context'):
            results.append([])
        elif b.startswith('Axioms:') or b.startswith('Section Variables:'):
            names = re.findall(r'^([A-Za-z_][\w\.\']*)\s*:', b, re.M)
            names = [n for n in names if n not in ('Axioms', 'Section Variables')]
            results.append(names)
    return results


def build_property(pid, extra_targets=(), coqchk=False):
    """A + B1: regenerate Gen, make Props/<pid>.vo, recompile it to read Print Assumptions."""
    info = {'ok': False, 'obligations': 0, 'discharged': 0, 'axioms': [], 'theorems': [], 'failed': [],
            'files': [], 'log': '', 'lint': [], 'gen_ok': True}
    with CoqLock():
        gen_ok, gen_out = regenerate_gen()
        info['gen_ok'] = gen_ok
        if not gen_ok:
            info['log'] += '[translator failed]\n' + gen_out[-3000:]
        prop = f'Props/{pid}.v'
        files = coq_deps_closure(prop)
        info['files'] = files
        info['lint'] = lint(files)
        rc, out = coq_make([f[:-2] + '.vo' for f in files] + list(extra_targets))
        info['log'] += out[-6000:]
        missing = [f for f in files if not (COQ / (f[:-2] + '.vo')).exists()]
        stale = []
        for f in files:
            vo = COQ / (f[:-2] + '.vo')
            if vo.exists() and vo.stat().st_mtime < (COQ / f).stat().st_mtime:
                stale.append(f)
        info['failed'] = missing + stale
        # statements and Qed counts over the closure
        nst, nqed = 0, 0
        for f in files:
            text = strip_comments((COQ / f).read_text())
            nst += len(_STMT.findall(text))
            nqed += len(re.findall(r'\b(Qed|Defined)\s*\.', text))
        info['obligations'] = nst
        failed_set = set(info['failed'])
        done = 0
        for f in files:
            if f in failed_set:
                continue
            done += len(_STMT.findall(strip_comments((COQ / f).read_text())))
        info['discharged'] = done
        if rc == 0 and not info['failed']:
            # force a fresh compile of the property file for its Print Assumptions output
            rc2, out2 = _run(['coqc', '-Q', '.', 'Replicat', '-w', '-notation-overridden', prop], cwd=str(COQ), timeout=600)
            info['log'] += out2[-3000:]
            if rc2 == 0:
                text = strip_comments((COQ / prop).read_text())
                thms = [m.group(2) for m in _STMT.finditer(text)]
                printed = re.findall(r'Print Assumptions\s+([\w\.\']+)', text)
                answers = parse_assumptions(out2)
                info['theorems'] = thms
                axioms = {}
                for name, ans in zip(printed, answers):
                    axioms[name] = ans
                info['axioms_by_theorem'] = axioms
                info['axioms'] = sorted({a for ans in answers for a in ans})
                info['printed'] = printed
                info['ok'] = (len(answers) == len(printed)) and not info['lint']
                if len(answers) != len(printed):
                    info['log'] += f'\n[Print Assumptions: {len(printed)} requested, {len(answers)} answers]'
            else:
                info['failed'].append(prop)
        if coqchk and info['ok']:
            # independent re-check of the compiled property file and everything it depends on - inside the SAME critical section as
            # the build (a check of another source tree running in parallel regenerates coq/Gen and recompiles part of the closure)
            info['coqchk'] = _run(['coqchk', '-o', '-Q', '.', 'Replicat', f'Replicat.Props.{pid}'], cwd=str(COQ), timeout=1500)
    return info


# --------------------------------------------------------------------------- evaluating Gallina on cases
def coq_nat_list(xs):
    return '[' + '; '.join(str(int(x)) for x in xs) + ']'


def coq_bytes(bs):
    """list N literal for a bytes object"""
    return '[' + ';'.join(str(b) for b in bs) + ']%N'


def coq_string(s: str):
    return '"' + s.replace('"', '""') + '"'


def coq_eval_files(jobs, timeout=900):
    """jobs: list of (name, text).  Each text is a complete .v file that Requires the model and ends
    with Eval/Compute commands.  Compiled in parallel in a scratch dir; returns {name: (rc, stdout)}."""
    results = {}
    with Scratch('coqeval') as d:
        for name, text in jobs:
            (d / f'{name}.v').write_text(text)

        def one(name):
            return name, _run(['coqc', '-Q', str(COQ), 'Replicat', '-w', '-notation-overridden', f'{name}.v'],
                              cwd=str(d), timeout=timeout)
        with ThreadPoolExecutor(max_workers=NCPU) as ex:
            for name, res in ex.map(one, [n for n, _ in jobs]):
                results[name] = res
    return results


def parse_coq_values(out):
    """Split coqc stdout into the printed values of successive Eval commands: returns list of strings
    (text after '= ' up to the type annotation line starting with ':')."""
    vals = []
    for m in re.finditer(r'^\s*= (.*?)^\s*: ', out, re.S | re.M):
        vals.append(' '.join(m.group(1).split()))
    return vals


def parse_coq_term(s):
    """Parse printed Coq data: nested lists, pairs, numbers, booleans, strings, Some/None."""
    s = re.sub(r'%(nat|N|Z|positive|string|char|list)\b', '', s)
    toks = re.findall(r'"(?:[^"]|"")*"|\[|\]|\(|\)|;|,|-?\d+|[A-Za-z_][\w\.\']*', s)
    pos = 0

    def atom():
        nonlocal pos
        t = toks[pos]
        if t == '[':
            pos += 1
            items = []
            if toks[pos] == ']':
                pos += 1
                return items
            while True:
                items.append(expr())
                if toks[pos] == ';':
                    pos += 1
                    continue
                assert toks[pos] == ']', toks[pos:pos + 5]
                pos += 1
                return items
        if t == '(':
            pos += 1
            items = [expr()]
            while toks[pos] == ',':
                pos += 1
                items.append(expr())
            assert toks[pos] == ')', toks[pos:pos + 5]
            pos += 1
            return tuple(items) if len(items) > 1 else items[0]
        pos += 1
        if t.startswith('"'):
            return t[1:-1].replace('""', '"')
        if re.fullmatch(r'-?\d+', t):
            return int(t)
        if t == 'true':
            return True
        if t == 'false':
            return False
        if t == 'None':
            return None
        return ('ctor', t)

    def expr():
        nonlocal pos
        a = atom()
        if isinstance(a, tuple) and len(a) == 2 and a[0] == 'ctor':
            args = []
            while pos < len(toks) and toks[pos] not in (']', ')', ';', ','):
                args.append(atom())
            if a[1] == 'Some' and len(args) == 1:
                return ('Some', args[0])
            return (a[1], *args) if args else a[1]
        return a

    v = expr()
    return v


# --------------------------------------------------------------------------- running the implementation
def run_impl(script_args, input_obj=None, timeout=900, extra_env=None):
    """Run a harness worker under the implementation environment (fresh interpreter)."""
    env = dict(IMPL_ENV)
    if extra_env:
        env.update(extra_env)
    e = dict(os.environ)
    e.update(env)
    p = subprocess.run([PY, *script_args], input=json.dumps(input_obj) if input_obj is not None else None,
                       stdout=subprocess.PIPE, stderr=subprocess.PIPE, text=True, timeout=timeout, env=e, cwd='/var/tmp')
    return p.returncode, p.stdout, p.stderr


def build_native():
    rc, out = _run(['sh', str(ROOT / 'native' / 'build.sh')], timeout=300, env={'REPO': str(REPO)})
    m = re.search(r'^NATIVE_LIB=(.+)$', out, re.M)
    if rc == 0 and m:
        # this process and every child it starts load THIS build (native/pyshim/_replicat_adapters.py reads the variable)
        os.environ['VERIF_NATIVE_LIB'] = m.group(1).strip()
    return rc == 0 and bool(m), out


# --------------------------------------------------------------------------- known findings
def load_known():
    out = []
    p = ROOT / 'known_findings.json'
    if p.exists():
        out += json.loads(p.read_text())['findings']
    for q in sorted((ROOT / 'known_findings.d').glob('*.json')):
        out += json.loads(q.read_text())['findings']
    return out


def match_known(pid, signature, known):
    for k in known:
        if k.get('property') != pid or k.get('status') != 'finding':
            continue
        m = k.get('match', {})
        if m and all(signature.get(key) == val for key, val in m.items()):
            return k
    return None


# --------------------------------------------------------------------------- main protocol
def write_replay(pid, obj):
    d = ROOT / 'replays'
    d.mkdir(exist_ok=True)
    h = hashlib.sha1(json.dumps(obj, sort_keys=True, default=repr).encode()).hexdigest()[:12]
    p = d / f'{pid}-{h}.json'
    p.write_text(json.dumps(obj, indent=1, default=repr))
    return p


def write_evidence(pid, tier, seed, level, coverage, assumptions, wall, violations):
    # runs against a scratch copy of the repository (seeded changes, builder worktrees) must not overwrite the
    # evidence of the real tree
    evdir = ROOT / ('evidence' if str(REPO) == '/repo' else 'evidence-alt')
    evdir.mkdir(exist_ok=True)
    ev = {'property_id': pid, 'tier': tier, 'seed': seed, 'level': level, 'coverage': coverage,
          'assumptions': assumptions, 'wall_s': round(wall, 2), 'violations': violations}
    (evdir / f'{pid}.json').write_text(json.dumps(ev, indent=1, default=repr))


class _Budget(Exception):
    pass


def _guarded(fn, seconds, rule, what):
    import signal
    import traceback

    def on_alarm(signum, frame):
        raise _Budget()
    old = signal.signal(signal.SIGALRM, on_alarm)
    signal.alarm(seconds)
    try:
        return fn()
    except _Budget:
        rep = Report(rule=rule)
        rep.disagreements.append({'what': f'the harness ({what}) did not finish within {seconds} s: a command of the implementation does not return',
                                  'replay': {'harness': what, 'problem': 'timeout'}})
        return rep
    except Exception:
        rep = Report(rule=rule)
        rep.disagreements.append({'what': f'the harness ({what}) could not evaluate the implementation: ' + traceback.format_exc()[-900:],
                                  'replay': {'harness': what, 'problem': 'exception'}})
        return rep
    finally:
        signal.alarm(0)
        signal.signal(signal.SIGALRM, old)


def main(argv):
    import importlib
    from harness.registry import REGISTRY
    if len(argv) < 3:
        print('usage: bin/check <Cxx> quick|thorough|replay [path]')
        return 2
    pid, tier = argv[1], argv[2]
    if pid not in REGISTRY:
        print(f'unknown or unclaimed property {pid}')
        return 2
    reg = REGISTRY[pid]
    mod = importlib.import_module(reg.get('module', f'harness.{pid.lower()}'))
    seed = int(os.environ.get('VERIF_SEED', '0') or 0)
    if tier == 'replay':
        with Scratch(pid) as sc:
            ctx = Ctx(pid, 'quick', seed, sc, random.Random(seed))
            return mod.replay(ctx, json.loads(Path(argv[3]).read_text()))
    os.environ.setdefault('VERIF_TIER', tier)
    t0 = time.time()
    known = load_known()
    ok_native, native_log = build_native()
    proof = build_property(pid, coqchk=(tier == 'thorough'))
    log(f'{pid}: proof build ok={proof["ok"]} obligations={proof["obligations"]} discharged={proof["discharged"]} '
        f'axioms={proof["axioms"]} ({time.time() - t0:.1f}s)')
    if not proof['ok']:
        log(proof['log'][-2500:])
    coqchk_note = None
    if tier == 'thorough' and proof['ok']:
        # independent re-check of the compiled property file and everything it depends on
        rc_chk, out_chk = proof.get('coqchk') or (1, 'coqchk was not run')
        m = re.search(r'\* Axioms:(.*?)\n\s*\n\* Constants', out_chk, re.S)
        ax = ' '.join(m.group(1).split()) if m else '?'
        coqchk_note = f'coqchk -o Replicat.Props.{pid}: ' + ('Modules were successfully checked; axioms: ' + ax if rc_chk == 0 else 'FAILED')
        log(coqchk_note)
        if rc_chk != 0:
            proof['ok'] = False
            proof['log'] += '\n[coqchk failed]\n' + out_chk[-1500:]
    lines, exit_code, nviol = [], 0, 0
    with Scratch(pid) as sc:
        ctx = Ctx(pid, tier, seed, sc, random.Random(seed))
        broken = []
        # safety net: a harness that cannot evaluate the tree (an exception it does not expect, a command that never returns)
        # must still end in a well-formed report: the failure is a broken correspondence, named in the replay file
        budget = int(os.environ.get('VERIF_BUDGET_S', '1000' if tier == 'quick' else '20000'))
        rep = _guarded(lambda: mod.run(ctx), budget, getattr(mod, 'RULE', ''), 'run')
        if not ok_native:
            broken.append({'what': 'native shim does not build from src/adapters.cpp', 'detail': native_log[-1500:]})
        if not proof['ok']:
            broken.append({'what': 'proof obligation or translated tie no longer checks',
                           'failed_files': proof['failed'], 'lint': proof['lint'], 'gen_ok': proof['gen_ok'],
                           'log_tail': proof['log'][-2500:]})
        for d in rep.disagreements:
            broken.append({'what': 'model/implementation correspondence differs: ' + d.get('what', ''), 'case': d.get('replay')})
        for d in rep.disagreements[:3]:
            log(f'{pid}: disagreement: ' + ' '.join(str(d.get('what', '')).split())[:400])
        timed_out = any((d.get('replay') or {}).get('problem') == 'timeout' for d in rep.disagreements if isinstance(d.get('replay'), dict))
        if broken and not rep.violations and hasattr(mod, 'search') and not timed_out:
            log(f'{pid}: {len(broken)} broken obligation(s)/correspondence(s); running the large search')
            ctx2 = Ctx(pid, tier, seed, sc, random.Random(seed + 1), deep=True)
            rep2 = _guarded(lambda: mod.search(ctx2, broken), budget, getattr(mod, 'RULE', ''), 'search')
            rep2.disagreements.clear()
            rep.merge(rep2)
    seen_known = {}
    fresh = []
    for v in rep.violations:
        k = match_known(pid, v.get('signature', {}), known)
        if k is not None:
            seen_known[k['id']] = k
        else:
            fresh.append(v)
    for k in seen_known.values():
        lines.append(f'KNOWN-FINDING: property={pid} {k["what"]}')
    reported = set()
    for v in fresh:
        key = json.dumps(v.get('signature', {}), sort_keys=True, default=repr)
        if key in reported:
            continue
        reported.add(key)
        path = write_replay(pid, {'property': pid, 'kind': 'failing-input', 'what': v['what'],
                                  'signature': v.get('signature'), 'replay': v.get('replay')})
        lines.append(f'VIOLATION property={pid} replay={path} ' + ' '.join(str(v['what']).split())[:200])
        nviol += 1
        exit_code = 1
    if broken and not fresh:
        path = write_replay(pid, {'property': pid, 'kind': 'broken-obligation', 'broken': broken})
        lines.append(f'VIOLATION property={pid} replay={path} no-failing-input-found')
        nviol += 1
        exit_code = 1
    wall = time.time() - t0
    level = reg['level']
    coverage = {
        'obligations': proof['obligations'],
        'discharged': proof['discharged'],
        'checker_cmd': f'make -C {COQ} Props/{pid}.vo && coqc -Q . Replicat Props/{pid}.v  (Coq 8.16.1, full .vo build, Print Assumptions per theorem)',
        'trusted_base': reg.get('trusted_base', []) + [f'Print Assumptions {t}: ' + (', '.join(a) if a else 'Closed under the global context')
                                                       for t, a in proof.get('axioms_by_theorem', {}).items()],
        'theorems': proof.get('printed', []),
        'proof_files': proof['files'],
        'evaluations': rep.evaluations,
        'distinct_nontrivial': len(rep.nontrivial),
        'rule': rep.rule,
        'samples': rep.samples or ['(no case generated)'],
        'traces_validated_against_impl': rep.traces_validated,
        'input_distribution': rep.dist,
        'disagreements': len(rep.disagreements),
        'known_findings_seen': sorted(seen_known),
        'notes': rep.notes + ([coqchk_note] if coqchk_note else []),
    }
    coverage.update(rep.extra)
    write_evidence(pid, tier, seed, level, coverage, reg.get('assumptions', []), wall, nviol)
    for l in lines:
        print(l)
    print(f'{pid} {tier}: proof_ok={proof["ok"]} obligations={proof["discharged"]}/{proof["obligations"]} cases={rep.evaluations} '
          f'nontrivial={len(rep.nontrivial)} disagreements={len(rep.disagreements)} violations={nviol} known={len(seen_known)} wall={wall:.0f}s')
    return exit_code
