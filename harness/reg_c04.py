from harness.registry import COMMON_TB

ENTRY = {
    'level': 'proof',
    'technique': ('Coq proof over a symbolic (Dolev-Yao) object store chosen by the adversary + source facts translated from '
                  'restore/_download_chunk, _download_snapshot_threadsafe, _load_snapshots + fault enumeration on real repositories '
                  '(objects x corruption kinds, model prediction vs implementation) + oracle "returned normally and bytes differ"'),
    'design_ref': 'DESIGN.md section 4 C04, section 3.3/3.4; design/C04.md',
    'text': ('Theorems C04_restore_authentic / C04_restore_store_independent: for EVERY store (arbitrary terms at arbitrary locations: garbage, '
             'other objects, forged objects, missing objects), encrypted or not, a restore of a snapshot name that returns normally wrote only '
             'files of the unique contents hashing to that name, each with exactly the recorded (chunk, range) parts; C04_authentic_of_snapshot: '
             'for an honestly written snapshot these are the backed-up files; C04_chunk_rehash, C04_swapped_chunk_fails_auth, '
             'C04_foreign_snapshot_contents_rejected, C04_bad_tag_skipped name the mechanisms. The theorems consume the facts read from the source '
             '(re-hash of the chunk plaintext, hash check of downloaded snapshot bytes, tag check, per-digest chunk key). Enumerated, not proved: '
             'that the byte-level code behaves like the symbolic model - every stored object x {bit flips at boundary and sampled offsets, '
             'truncations, extensions, nonce splice, delete, swap, replay, copies} singly and in sampled pairs on real repositories (both ciphers, '
             'unencrypted, Local and in-memory backends), model-predicted outcome class and restored bytes compared with the implementation.'),
    'note': ('Idealisation: constructors of the term algebra are free = the hash is collision-free and AEAD ciphertexts/MACs cannot be forged; '
             'JSON/base64 encodings injective. Bit-flip offsets and pairs are sampled, objects x kinds are exhaustive on the generated repositories. '
             'The local cache is disabled here (its contents are C18\'s subject). Whole-snapshot removal is undetectable by design (restore writes nothing).'),
    'trusted_base': COMMON_TB + ['independent repository reader /verif/harness/refreader.py (lifts bytes to terms; hashlib + cryptography only)',
                                 'in-memory Backend /verif/harness/membackend.py'],
    'assumptions': ['hash function collision-free, AEAD/MAC unforgeable (free term constructors)',
                    'the snapshot name handed to restore is the full name returned by snapshot (regex matches only that name)'],
}
