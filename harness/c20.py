"""C20 - bandwidth limit: the real RateLimitedIO / _RateLimitedFileWrapper (and the TQDMIO wrappers stacked
as in repository.py) under a virtual clock, compared call by call with Model/RateLimit.v (vm_compute),
plus model-free oracles: windowed byte count against the bound, byte transparency against a bare BytesIO.
design/C20.md."""
from __future__ import annotations

import contextlib
import io
import os
import warnings
from fractions import Fraction as Fr

from harness import core
from harness.core import Report


# --------------------------------------------------------------------------- virtual clock / logical threads
class Sim:
    """Discrete-event execution of several logical threads through ONE real RateLimitedIO, run sequentially in this
    thread.  time.perf_counter / time.sleep of replicat.utils see the clock of the logical thread that is running; the
    limiter's locks are replaced by objects that make a thread wait (advance its clock) until the lock is free and
    keep it until the pause call returns - exactly what threading.Lock does to wall-clock time."""

    def __init__(self, nthreads, exact=True):
        self.exact = exact
        self.inexact = False      # a clock value was not exactly representable as a float (non-dyadic constants)
        self.wall_offset = Fr(0)
        self.wall_jumps = [Fr(3600), Fr(-1800), Fr(1, 2), Fr(-7), Fr(86400), Fr(2), Fr(-1, 4)]
        self.njumps = 0
        self.clock = [Fr(0)] * nthreads
        self.cur = 0
        self.lockfree = {'r': Fr(0), 'w': Fr(0)}
        self.over = Fr(0)
        self.sleeps = []          # sleeps requested during the current call
        self.lock_taken_at = None

    # replacements installed into replicat.utils.time
    def perf_counter(self):
        v = self.clock[self.cur]
        f = float(v)
        if Fr(f) != v:
            self.inexact = True
        return f

    def sleep(self, x):
        fx = Fr(x)
        self.sleeps.append(fx)
        self.clock[self.cur] += fx + self.over
        if self.wall_jumps:       # the wall clock steps while the code sleeps
            self.wall_offset += self.wall_jumps[self.njumps % len(self.wall_jumps)]
            self.njumps += 1

    def wall(self):
        return float(1_700_000_000 + self.clock[self.cur] + self.wall_offset)

    def advance(self, dt):
        self.clock[self.cur] += dt


class SimLock:
    def __init__(self, sim, which):
        self.sim, self.which = sim, which

    def __enter__(self):
        s = self.sim
        s.clock[s.cur] = max(s.clock[s.cur], s.lockfree[self.which])
        s.lock_taken_at = s.clock[s.cur]

    def __exit__(self, *exc):
        s = self.sim
        s.lockfree[self.which] = s.clock[s.cur]


class FakeTime:
    """replicat.utils.time under the virtual clock.  perf_counter / monotonic are the scenario's monotonic clock; time() is the
    WALL clock, which the scenario lets step forwards and backwards (NTP, manual changes) whenever the code sleeps; the window
    bound is judged on the monotonic clock.  Everything else is the real time module."""

    def __init__(self, sim):
        self.perf_counter = sim.perf_counter
        self.monotonic = sim.perf_counter
        self.sleep = sim.sleep
        self.time = sim.wall
        self.perf_counter_ns = lambda: int(sim.perf_counter() * 10 ** 9)
        self.monotonic_ns = self.perf_counter_ns
        self.time_ns = lambda: int(sim.wall() * 10 ** 9)

    def __getattr__(self, name):
        import time as _t
        return getattr(_t, name)


class SlowFile:
    """Underlying stream: each read/write takes the latency the scenario dictates and moves the bytes it dictates;
    records the instant the call returns (the bytes have passed)."""

    def __init__(self, sim, log):
        self.sim, self.log = sim, log
        self.next = None     # (latency, nbytes)
        self.pos = 0         # an endless forward-only stream: the position is the number of bytes moved so far

    def read(self, size=-1):
        e, n = self.next
        self.sim.advance(e)
        self.log.append((self.sim.cur, self.sim.clock[self.sim.cur], n))
        self.pos += n
        return bytes(n)

    def write(self, data):
        e, n = self.next
        self.sim.advance(e)
        self.log.append((self.sim.cur, self.sim.clock[self.sim.cur], n))
        self.pos += n
        return n

    def tell(self):
        return self.pos

    def seek(self, offset, whence=0):
        self.pos = offset if whence == 0 else self.pos + offset
        return self.pos

    def truncate(self, size=None):
        return self.pos if size is None else size

    def seekable(self):
        return True

    def readable(self):
        return True

    def writable(self):
        return True


@contextlib.contextmanager
def patched_time(sim):
    import replicat.utils as U
    old = U.time
    U.time = FakeTime(sim)
    try:
        yield U
    finally:
        U.time = old


def fr(s):
    return Fr(s)


class PositionedFile(io.BytesIO):
    """a real seekable stream under the wrapper: every read/write takes the scripted latency and is logged with the
    instant it returns and the number of bytes that really moved - wherever in the stream they lie"""

    def __init__(self, sim, log, content):
        super().__init__(content)
        self.sim, self.log, self.lat = sim, log, Fr(0)

    def read(self, size=-1):
        data = super().read(size)
        self.sim.advance(self.lat)
        self.log.append((self.sim.cur, self.sim.clock[self.sim.cur], len(data)))
        return data

    def write(self, data):
        n = super().write(data)
        self.sim.advance(self.lat)
        self.log.append((self.sim.cur, self.sim.clock[self.sim.cur], n))
        return n


def run_positioned(sc):
    """One stream with a position: sc['script'] is a list of ['read', n, lat] / ['write', n, lat] / ['seek', pos, whence] /
    ['truncate', size] applied through the wrapper to a BytesIO of sc['content_len'] bytes (passes to the end, rewinds,
    seeks to the middle and re-reads, rewrites after truncation).  Every rate-limited call becomes one call of the model
    (gap 0, size = bytes that moved, latency as scripted): the bound and the model speak about the bytes passing the
    wrapper per call, wherever they lie in the stream."""
    sim = Sim(1)
    log, out, derived = [], [], []
    with patched_time(sim) as U:
        lim = U.RateLimitedIO(sc['L'])
        lim._read_lock = SimLock(sim, 'r')
        lim._write_lock = SimLock(sim, 'w')
        f = PositionedFile(sim, log, bytes(sc['content_len']))
        w = lim.wrap(f)
        if sc.get('stack'):
            cls = U.TQDMIOReader if sc['dir'] == 'r' else U.TQDMIOWriter
            w = cls(w, desc='x', total=None, position=0, disable=True)
        for op in sc['script']:
            if op[0] in ('read', 'write'):
                begin = sim.clock[0]
                sim.sleeps = []
                sim.lock_taken_at = None
                f.lat = fr(op[2])
                before = len(log)
                if op[0] == 'read':
                    got = len(w.read(op[1]))
                    debt = lim._read_sleep_amortised
                else:
                    got = w.write(bytes(op[1]))
                    debt = lim._write_sleep_amortised
                moved = sum(b for _, _, b in log[before:])
                if got != moved or len(log) != before + 1:
                    sc['_short'] = {'call': len(out), 'thread': 0, 'underlying': moved, 'through_wrapper': got}
                    break
                out.append({'thread': 0, 'begin': begin, 'lat': f.lat, 'size': Fr(moved), 'over': Fr(0), 'gap': Fr(0),
                            'lock': sim.lock_taken_at, 'time': log[-1][1], 'sleep': sum(sim.sleeps, Fr(0)), 'debt': Fr(debt)})
                derived.append(['0', str(moved), fs(f.lat), '0'])
            elif op[0] == 'seek':
                w.seek(op[1], op[2])
            else:
                w.truncate(op[1])
        consts = (Fr(lim.PAUSE_LIMIT), Fr(lim.PAUSE_THRESHOLD_SECONDS))
    sc['calls'] = [derived]
    sc['order'] = [0] * len(derived)
    sc['_inexact'] = sim.inexact
    return out, consts


def gen_positioned(rng):
    """passes over one positioned stream: to the end, rewind, again; seek to the middle and re-read; retry after a full read;
    rewrite after truncate - the sizes are the transfer chunk (<= L/4), latencies zero or small"""
    L = 2 ** rng.randint(8, 16)
    k = rng.random()
    dmax = max(L // (rng.choice([1, 2, 5]) * rng.choice(site_divisors())), 1) if k < 0.5 else L // 4
    d = rng.choice([dmax, dmax, max(dmax // 2, 1), rng.randint(max(dmax // 2, 1), dmax)])
    # the stream holds one to three seconds' worth of payload (at most 200 calls per pass), so that a second pass matters
    # against the burst allowance
    n = min(rng.randint(L, 3 * L), rng.randint(100, 200) * d)
    direction = rng.choice('rw')
    script = []
    lat = lambda: '0' if rng.random() < 0.8 else fs(Fr(rng.randint(0, 16), 1024))

    def a_pass(start):
        k = -(-(n - start) // d)
        if direction == 'r':
            return [['read', d, lat()] for _ in range(k + 1)]        # the last read finds the end of the stream
        return [['write', min(d, n - start - i * d), lat()] for i in range(k)]
    script += a_pass(0)
    for _ in range(rng.choice([1, 1, 2, 3])):
        kind = rng.choice(['rewind', 'rewind', 'middle', 'from_end', 'truncate'])
        if kind == 'rewind':
            script += [['seek', 0, 0]] + a_pass(0)
        elif kind == 'middle':
            m = rng.randint(0, n)
            script += [['seek', m, 0]] + a_pass(m)
        elif kind == 'from_end':
            m = rng.randint(0, n)
            script += [['seek', -m, 2]] + a_pass(n - m)
        else:
            script += [['seek', 0, 0]] + ([['truncate', 0]] if direction == 'w' else []) + a_pass(0)
    return {'threads': 1, 'L': L, 'dmax': dmax, 'dir': direction, 'content_len': n if direction == 'r' else 0, 'script': script,
            'stack': rng.random() < 0.3, 'family': 'positioned-passes', 'calls': [[]]}


def run_impl(sc, rng=None):
    """Run a scenario on the real code.  The lock order is sc['order'] when present (replays); otherwise it is chosen
    on the fly and recorded: among the threads with calls left, those whose arrival at the lock (clock + gap +
    latency) is minimal, or not after the instant the lock becomes free, are candidates and rng picks one - every
    such order is an execution real threads can produce.
    Returns per call dict(thread, begin, lat, size, over, gap, lock, time, sleep, debt) and the class constants."""
    if 'script' in sc:
        return run_positioned(sc)
    n = sc['threads']
    sim = Sim(n)
    log = []
    out = []
    fixed = list(sc['order']) if 'order' in sc else None
    order = []
    which = 'r' if sc['dir'] == 'r' else 'w'
    with patched_time(sim) as U:
        lim = U.RateLimitedIO(sc['L'])
        lim._read_lock = SimLock(sim, 'r')
        lim._write_lock = SimLock(sim, 'w')
        files = [SlowFile(sim, log) for _ in range(n)]
        wrappers = [lim.wrap(f) for f in files]
        # wrappers stacked as repository.py does (progress wrapper on top), quiet
        if sc.get('stack'):
            cls = U.TQDMIOReader if sc['dir'] == 'r' else U.TQDMIOWriter
            wrappers = [cls(w, desc='x', total=None, position=0, disable=True) for w in wrappers]
        pending = [list(sc['calls'][t]) for t in range(n)]   # per thread: [gap, size, lat, over]
        while any(pending):
            if fixed is not None:
                t = fixed.pop(0)
            else:
                arr = {t: sim.clock[t] + fr(pending[t][0][0]) + fr(pending[t][0][2]) for t in range(n) if pending[t]}
                horizon = max(min(arr.values()), sim.lockfree[which])
                t = rng.choice(sorted(t for t, a in arr.items() if a <= horizon))
            order.append(t)
            gap, size, lat, over = (fr(x) for x in pending[t].pop(0))
            sim.cur = t
            sim.advance(gap)
            begin = sim.clock[t]
            sim.over = over
            sim.sleeps = []
            sim.lock_taken_at = None
            files[t].next = (lat, int(size))
            if sc['dir'] == 'r':
                moved = len(wrappers[t].read(int(size) if size else 1))
                debt = lim._read_sleep_amortised
            else:
                moved = wrappers[t].write(bytes(int(size)))
                debt = lim._write_sleep_amortised
            if moved != int(size):
                # the wrapper did not hand on what the underlying stream delivered / accepted: a transparency failure,
                # reported by exercise() with this scenario as the failing input
                sc['_short'] = {'call': len(out), 'thread': t, 'underlying': int(size), 'through_wrapper': moved}
                pending = [[] for _ in range(n)]
                break
            out.append({'thread': t, 'begin': begin, 'lat': lat, 'size': size, 'over': over, 'gap': gap,
                        'lock': sim.lock_taken_at, 'time': log[-1][1], 'sleep': sum(sim.sleeps, Fr(0)), 'debt': Fr(debt)})
        consts = (Fr(lim.PAUSE_LIMIT), Fr(lim.PAUSE_THRESHOLD_SECONDS))
    sc['order'] = order
    sc['_inexact'] = sim.inexact
    return out, consts


# --------------------------------------------------------------------------- oracle: windowed byte count
def max_window_excess(events, L, burst):
    """max over windows [t, t+T] of bytes(window) - L*T - burst; events = [(time, bytes)].  It suffices to look at
    windows that start and end at event instants.  Returns (excess, t, T, bytes)."""
    ev = sorted(events)
    times = [t for t, _ in ev]
    best = None
    # prefix sums over sorted events; for ties include all events at the same instant
    n = len(ev)
    pre = [Fr(0)]
    for _, b in ev:
        pre.append(pre[-1] + b)
    import bisect
    for i in range(n):
        if i and times[i] == times[i - 1]:
            continue
        for j in range(i, n):
            if j + 1 < n and times[j + 1] == times[j]:
                continue
            T = times[j] - times[i]
            by = pre[j + 1] - pre[i]
            ex = by - L * T - burst
            if best is None or ex > best[0]:
                best = (ex, times[i], T, by)
    return best


def max_window_excess_linear(events, L, burst):
    """the same maximum in one pass: bytes(i..j) - L*(t_j - t_i) = (pre[j+1] - L*t_j) - (pre[i] - L*t_i), so for every j the
    best start is the minimum of pre[i] - L*t_i over i <= j (events at one instant are all inside the window: the earliest
    of them has the smallest pre[i], the latest the largest pre[j+1])."""
    ev = sorted(events)
    if not ev:
        return None
    best = None
    pre = Fr(0)
    lo, lo_t = None, None
    for t, b in ev:
        key = pre - L * t
        if lo is None or key < lo:
            lo, lo_t = key, t
        pre += b
        ex = pre - L * t - lo - burst
        if best is None or ex > best[0]:
            best = (ex, lo_t, t - lo_t, ex + burst + L * (t - lo_t))
    return best


def check_bound(sc, calls, consts, rep, kind_override=None):
    PL, TH = consts
    L = Fr(sc['L'])
    dmax = Fr(sc['dmax'])
    n = sc['threads']
    O = max([c['over'] for c in calls] + [Fr(0)])
    burst = L * PL + (dmax if n == 1 else (n + 1) * dmax) + L * O
    best = max_window_excess_linear([(c['time'], c['size']) for c in calls], L, burst)
    if best is not None and sc.get('family') != 'multi-slow-io-probe':
        key = 'closest_to_bound_bytes_below[' + ('1 stream' if n == 1 else 'n streams') + ']'
        rep.extra[key] = min(rep.extra.get(key, 10 ** 9), float(-best[0]))
    tol = (L * best[2] + burst) / 10 ** 9 if (best is not None and sc.get('_inexact')) else 0
    if best is not None and best[0] > tol:
        ex, t, T, by = best
        slow = any(c['lat'] > 0 for c in calls)
        kind = kind_override or ('multi_stream_slow_io' if (n > 1 and slow) else 'window_bound')
        rep.violations.append({
            'what': ((f'one stream of {sc.get("content_len") or "(written)"} bytes gone over several times (to the end, rewind / seek, again): ' if 'script' in sc else '')
                     + f'{by} bytes passed in a window of {float(T):.6g} s starting at {float(t):.6g} s with limit {sc["L"]} B/s, '
                     f'{n} stream(s), sizes <= {sc["dmax"]}: allowed L*T + L*PAUSE_LIMIT + {"(n+1)*" if n > 1 else ""}d_max = {float(L * T + burst):.6g}'),
            'signature': {'kind': kind, 'dir': sc['dir']},
            'replay': {k: v for k, v in sc.items() if not k.startswith('_')}})
        return True
    return False


# --------------------------------------------------------------------------- model side
def q(x):
    x = Fr(x)
    return f'({x.numerator} # {x.denominator})'


def model_text(scs):
    lines = ['From Coq Require Import QArith List ZArith.',
             'From Replicat Require Import Gen.RateLimitGen Model.RateLimit.',
             'Import ListNotations.', 'Open Scope Q_scope.',
             'Definition qp (x : Q) : list Z := let r := Qred x in [Qnum r; Zpos (Qden r)].',
             'Definition show (evs : list event) := map (fun ev => (qp (ev_time ev), qp (ev_bytes ev), qp (ev_sleep ev), qp (ev_debt ev))) evs.',
             'Definition c (g d e o : Q) := Build_call g d e o.',
             'Definition m (th : nat) (b e d u : Q) := Build_mcall th b e d u.']
    for sc in scs:
        L = q(sc['L'])
        if sc['threads'] == 1:
            cs = '; '.join(f'c {q(g)} {q(d)} {q(e)} {q(o)}' for g, d, e, o in sc['calls'][0])
            lines.append(f'Eval vm_compute in (true, show (run PAUSE_LIMIT PAUSE_THRESHOLD_SECONDS {L} 0 0 [{cs}])).')
        else:
            cs = '; '.join(f'm {c["thread"]}%nat {q(c["begin"])} {q(c["lat"])} {q(c["size"])} {q(c["lock"])}' for c in sc['_impl'])
            lines.append(f'Eval vm_compute in (mvalid PAUSE_LIMIT PAUSE_THRESHOLD_SECONDS {L} mstate0 [{cs}], '
                         f'show (mrun PAUSE_LIMIT PAUSE_THRESHOLD_SECONDS {L} mstate0 [{cs}])).')
    return '\n'.join(lines) + '\n'


def run_model(scs, per_file=12):
    jobs = [(f'c20_{i // per_file}', model_text(scs[i:i + per_file])) for i in range(0, len(scs), per_file)]
    res = core.coq_eval_files(jobs)
    out = []
    for name, _ in jobs:
        rc, text = res[name]
        if rc != 0:
            return None, text[-1500:]
        for v in core.parse_coq_values(text):
            out.append(core.parse_coq_term(v))
    return out, ''


def canon_impl(calls):
    return [(c['time'], Fr(c['size']), c['sleep'], c['debt']) for c in calls]


def canon_model(val):
    ok, evs = val
    return ok, [tuple(Fr(a, b) for a, b in ev) for ev in evs]


# --------------------------------------------------------------------------- generators (dyadic rationals only)
def dy(rng, hi_num, den):
    return Fr(rng.randint(0, hi_num), den)


def gen_limit(rng):
    k = rng.random()
    if k < 0.7:
        return 2 ** rng.randint(6, 16), 1
    odd = rng.choice([3, 5, 7])
    return odd * 2 ** rng.randint(5, 12), odd     # sizes must be multiples of odd so that d/L is dyadic


def gen_size(rng, dmax, odd):
    k = rng.random()
    if k < 0.35:
        d = dmax
    elif k < 0.45:
        d = 0
    elif k < 0.55:
        d = max(dmax - odd, 0)
    else:
        d = rng.randint(0, dmax // odd) * odd
    return d


def gen_lat(rng, d, L):
    k = rng.random()
    if k < 0.45:
        return Fr(0)
    if k < 0.6:
        return Fr(d, L)                        # exactly as slow as the limit
    if k < 0.75:
        return Fr(d, L) / 2
    if k < 0.85:
        return Fr(d, L) * 2
    return dy(rng, 512, 1024)


def gen_gap(rng):
    k = rng.random()
    if k < 0.7:
        return Fr(0)
    if k < 0.9:
        return dy(rng, 64, 1024)
    return dy(rng, 2048, 1024)


def fs(x):
    return str(Fr(x))


_DIVISORS = None


def site_divisors():
    """the divisors K of `max(rate_limit // (self._concurrent * K), 1)` at the rate-limited sites, read off the current
    source (so that a changed formula is exercised with the sizes it really produces); 16 if the shape is not recognised"""
    global _DIVISORS
    if _DIVISORS is None:
        try:
            from translate import pyast, units_c20
            _DIVISORS = sorted({d for _, d in units_c20.chunk_sites(pyast.module(units_c20.REPOSITORY))}) or [16]
        except Exception:
            _DIVISORS = [16]
    return _DIVISORS


def gen_single(rng, ncalls):
    L, odd = gen_limit(rng)
    k = rng.random()
    if k < 0.35:
        conc = rng.choice([1, 1, 2, 4, 5, 8])
        dmax = max(L // (conc * rng.choice(site_divisors())), 1)     # the chunk size the commands choose
    elif k < 0.75:
        dmax = L // 4                            # the property's quantifier bound
    else:
        dmax = rng.randint(1, L // 4)
    dmax = max(dmax // odd * odd, odd) if odd > 1 else dmax
    if dmax * 4 > L and k >= 0.35:
        dmax = odd
    adversarial = rng.random() < 0.3
    adv_mixed = rng.random() < 0.4
    calls = []
    for _ in range(ncalls):
        if adversarial:
            d = rng.choice([dmax, dmax, dmax, dmax // 2 // odd * odd]) if adv_mixed else dmax
            e = rng.choice([Fr(0), Fr(0), Fr(0), Fr(d, L)])
            g = Fr(0)
        else:
            d = gen_size(rng, dmax, odd)
            e = gen_lat(rng, d, L)
            g = gen_gap(rng)
        o = Fr(0) if rng.random() < 0.85 else dy(rng, 32, 1024)
        calls.append([fs(g), fs(d), fs(e), fs(o)])
    return {'threads': 1, 'L': L, 'dmax': dmax, 'dir': rng.choice('rw'), 'calls': [calls], 'stack': rng.random() < 0.3,
            'family': 'single-adversarial' if adversarial else 'single'}


def gen_multi(rng, ncalls):
    """several streams, negligible (zero) underlying latency - the BytesIO payloads of snapshot and restore"""
    L, odd = gen_limit(rng)
    n = rng.choice([2, 2, 3, 4, 5])
    dmax = max(L // (n * rng.choice(site_divisors())), 1)
    dmax = max(dmax // odd * odd, odd) if odd > 1 else dmax
    if dmax * 4 > L and site_divisors() == [16]:
        return gen_multi(rng, ncalls)
    calls = [[] for _ in range(n)]
    greedy = rng.random() < 0.5
    for t in range(n):
        for _ in range(max(1, ncalls // n)):
            d = dmax if greedy else gen_size(rng, dmax, odd)
            g = Fr(0) if greedy else gen_gap(rng)
            calls[t].append([fs(g), fs(d), '0', '0'])
    return {'threads': n, 'L': L, 'dmax': dmax, 'dir': rng.choice('rw'), 'calls': calls, 'stack': rng.random() < 0.3,
            'family': 'multi-zero-latency'}


def gen_tiny_pieces(rng):
    """one stream moving very small pieces as fast as it can: the chunk size the commands choose with many connections
    (L // (16 * n) for n = 64 .. 1000 is worth a millisecond or less), for one to two seconds' worth of payload - every piece
    owes its d/L however small"""
    L = 2 ** rng.randint(12, 20)
    conc = rng.choice([64, 64, 100, 128, 256, 1000])
    d = max(L // (conc * rng.choice(site_divisors())), 1)
    ncalls = min(int(rng.choice([1, 1.5, 2]) * L / d), 1600)
    calls = []
    for _ in range(ncalls):
        e = Fr(0) if rng.random() < 0.95 else Fr(d, L) / 2
        calls.append(['0', str(d), fs(e), '0'])
    return {'threads': 1, 'L': L, 'dmax': d, 'dir': rng.choice('rw'), 'calls': [calls], 'stack': False, 'family': 'single-tiny-pieces'}


def gen_multi_large(rng):
    """3-8 streams on one limiter moving pieces of up to a quarter second's worth (the property's d <= L/4, not only the
    commands' small chunk), zero latency, greedy: several seconds' worth of payload, so that whoever queues behind another
    stream's sleep does so many times - the bound is L*T + L*PAUSE_LIMIT + (n+1)*d_max"""
    L = 2 ** rng.randint(8, 16)
    n = rng.randint(3, 8)
    dmax = L // rng.choice([4, 4, 5, 8, 8, 16])
    seconds = rng.choice([6, 8, 10])
    per_thread = max(4, seconds * L // (n * dmax))
    calls = [[] for _ in range(n)]
    for t in range(n):
        for _ in range(per_thread):
            d = dmax if rng.random() < 0.8 else rng.randint(dmax // 2, dmax)
            calls[t].append(['0', str(d), '0', '0'])
    return {'threads': n, 'L': L, 'dmax': dmax, 'dir': rng.choice('rw'), 'calls': calls, 'stack': False,
            'family': 'multi-zero-latency-large-pieces'}


def slow_io_probe(rng, randomised):
    """row 14 of DESIGN section 5: n streams whose underlying I/O is as slow as the limit and overlaps"""
    if not randomised:
        L, n, d, k = 1024, 2, 32, 32
    else:
        L = 2 ** rng.randint(8, 14)
        n = rng.choice([2, 3, 4])
        d = max(L // (n * 16), 1)
        k = rng.randint(40, 80) * 16 // n
    calls = [[['0', str(d), fs(Fr(d, L)), '0'] for _ in range(k)] for _ in range(n)]
    return {'threads': n, 'L': L, 'dmax': d, 'dir': 'r', 'calls': calls, 'stack': False, 'family': 'multi-slow-io-probe'}


# --------------------------------------------------------------------------- transparency (model-free)
def transparency_case(rng, idx):
    case = _transparency_case(rng, idx)
    if rng.random() < 0.3:
        # the underlying stream is a raw one: some calls move only part of the data, a write may take nothing at all
        case['short'] = [rng.choice(['all', 'all', 'half', 'zero', 'one']) for _ in range(rng.randint(1, 6))]
    return case


def _transparency_case(rng, idx):
    import replicat.utils as U
    init = rng.randbytes(rng.choice([0, 1, 10, 100, 1000, 5000]))
    limit = rng.choice([1, 7, 64, 1000, 4096, 10 ** 6])
    stack = rng.choice(['bare', 'reader', 'writer'])
    enable_bar = rng.random() < 0.15
    ops = []
    if rng.random() < 0.35:
        # whole passes over the stream: read to the end (until a read returns nothing), then rewind / seek to the middle /
        # seek relative to the end and read again - what a backend does that hashes a stream before sending it, or retries
        if not init:
            init = rng.randbytes(rng.choice([1, 10, 100, 1000]))
        n = len(init)
        c = rng.choice([1, 7, 64, 100, 1000, 10000, -1])

        def full_pass(start):
            if stack == 'writer':
                return [['write', rng.randbytes(rng.choice([1, 3, 50])).hex()] for _ in range(rng.randint(1, 4))]
            left = n - start
            k = 1 if c == -1 else -(-left // c)
            return [['read', c] for _ in range(k + rng.choice([1, 1, 2]))]      # the last read(s) hit the end of the stream
        ops += full_pass(0)
        for _ in range(rng.choice([1, 1, 2, 3])):
            kind = rng.choice(['rewind', 'middle', 'from_end', 'retry'])
            if kind == 'rewind':
                ops += [['seek', 0, 0]] + full_pass(0)
            elif kind == 'middle':
                m = rng.randint(0, n)
                ops += [['seek', m, 0]] + full_pass(m)
            elif kind == 'from_end':
                ops += [['seek', 0, 2], ['seek', 0, 0]] + full_pass(0)
            else:
                ops += [['seek', 0, 0]] + ([['read', -1]] if stack != 'writer' else full_pass(0))
            if stack == 'bare' and rng.random() < 0.3:
                ops.append(['tell'])
        return {'init': init.hex(), 'limit': limit, 'stack': stack, 'ops': ops, 'bar': enable_bar}
    for _ in range(rng.randint(1, 25)):
        k = rng.random()
        if stack == 'reader':
            kinds = ['read', 'seek', 'truncate']
        elif stack == 'writer':
            kinds = ['write', 'seek', 'truncate']
        else:
            kinds = ['read', 'write', 'seek', 'tell', 'truncate']
        kind = rng.choice(kinds)
        if kind == 'read':
            ops.append(['read', rng.choice([-1, 0, 1, 2, 7, 64, 100, 1000, 10000])])
        elif kind == 'write':
            ops.append(['write', rng.randbytes(rng.choice([0, 1, 3, 50, 700])).hex()])
        elif kind == 'seek':
            wh = rng.choice([0, 0, 0, 1, 2])
            ops.append(['seek', rng.randint(0, 1200) if wh == 0 else 0 if wh == 1 else 0, wh] if wh != 2 else ['seek', 0, 2])
        elif kind == 'tell':
            ops.append(['tell'])
        else:
            ops.append(['truncate', rng.choice([None, 0, 5, 100, 2000])])
    return {'init': init.hex(), 'limit': limit, 'stack': stack, 'ops': ops, 'bar': enable_bar}


def apply_ops(f, ops):
    res = []
    for op in ops:
        try:
            if op[0] == 'read':
                res.append(['read', f.read(op[1]).hex()])
            elif op[0] == 'write':
                res.append(['write', f.write(bytes.fromhex(op[1]))])
            elif op[0] == 'seek':
                res.append(['seek', f.seek(op[1], op[2])])
            elif op[0] == 'tell':
                res.append(['tell', f.tell()])
            else:
                res.append(['truncate', f.truncate(op[1])])
        except Exception as e:   # same exception type expected on both sides
            res.append(['exc', type(e).__name__])
    return res


class ShortIO(io.BytesIO):
    """a raw-style stream (pipe, socket): a write may accept only part of the data or nothing and says how much it took, a read
    may return fewer bytes than asked; the plan says which calls are short"""

    def __init__(self, content, plan):
        super().__init__(content)
        self.plan, self.k = list(plan), 0

    def _next(self):
        v = self.plan[self.k % len(self.plan)] if self.plan else 'all'
        self.k += 1
        return v

    def write(self, data):
        v = self._next()
        n = len(data) if v == 'all' else 0 if v == 'zero' else len(data) // 2 if v == 'half' else min(1, len(data))
        return super().write(bytes(data)[:n])

    def read(self, size=-1):
        v = self._next()
        if v == 'all' or size is None or size < 0 and v == 'zero':
            return super().read(size)
        left = len(self.getbuffer()) - self.tell()
        want = left if size < 0 else min(size, left)
        n = want if v == 'zero' else want // 2 if v == 'half' else min(1, want)     # a short read still returns something
        return super().read(max(n, 1) if want else 0)


def run_transparency(case):
    sim = Sim(1, exact=False)
    with patched_time(sim) as U:
        lim = U.RateLimitedIO(case['limit'])
        if case.get('short'):
            raw = ShortIO(bytes.fromhex(case['init']), case['short'])
            ref = ShortIO(bytes.fromhex(case['init']), case['short'])
        else:
            raw = io.BytesIO(bytes.fromhex(case['init']))
            ref = io.BytesIO(bytes.fromhex(case['init']))
        w = lim.wrap(raw)
        with contextlib.ExitStack() as st:
            if case['bar']:
                devnull = st.enter_context(open(os.devnull, 'w'))
                st.enter_context(contextlib.redirect_stderr(devnull))
            if case['stack'] == 'reader':
                w = U.TQDMIOReader(w, desc='x', total=len(case['init']) // 2, position=0, disable=not case['bar'])
            elif case['stack'] == 'writer':
                w = U.TQDMIOWriter(w, desc='x', total=None, position=0, disable=not case['bar'])
            got = apply_ops(w, case['ops'])
            if case['stack'] != 'bare':
                w._tracker.close()
        want = apply_ops(ref, case['ops'])
        return got, want, raw.getvalue(), ref.getvalue(), raw.tell(), ref.tell(), sim.clock[0]


def check_transparency(case, rep):
    got, want, a, b, ta, tb, slept = run_transparency(case)
    rep.count('transparency:' + case['stack'])
    rep.case(('transparency', case['init'], case['limit'], case['stack'], case['ops'], case.get('short')),
             nontrivial=slept > 0 and any(o[0] in ('read', 'write') for o in case['ops']))
    if got != want or a != b or ta != tb:
        first = next((i for i, (x, y) in enumerate(zip(got, want)) if x != y), None)
        rep.violations.append({
            'what': (f'the rate-limited wrapper ({case["stack"]}' + (f', over a raw stream whose calls move {case["short"]} of what is asked' if case.get('short') else '') + f') is not transparent: op #{first} {case["ops"][first] if first is not None else ""} '
                     f'returned {got[first] if first is not None else "same results"} instead of {want[first] if first is not None else ""}; '
                     f'final contents equal: {a == b}, final position {ta} vs {tb}'),
            'signature': {'kind': 'transparency', 'stack': case['stack']},
            'replay': {'transparency': case}})
        return True
    return False


# --------------------------------------------------------------------------- the check
RULE = ('scenarios = (limit L, direction, per-thread lists of (caller gap, size, underlying latency, over-sleep)) over dyadic '
        'rationals so that the float arithmetic of the real code is exact; families: one stream with arbitrary latencies '
        '(sizes <= d_max with d_max = L/4, the commands\' chunk size max(L//(16n),1), or random), adversarial all-d_max '
        'bursts, 2-5 streams with zero latency in an rng-chosen legal lock order, the slow-overlapping-I/O probe; plus '
        'transparency cases = random read/write/seek/tell/truncate sequences on BytesIO through the wrapper, bare or under '
        'TQDMIOReader/TQDMIOWriter; one positioned stream gone over several times (pass to the end, rewind / seek to the middle / from '
        'the end, further passes) with the window bound over all bytes that passed; plus command-level cases = the real upload_objects / download_objects / snapshot / restore with a rate '
        'limit over many files/objects around and below the transfer chunk size against a recording backend under the virtual '
        'clock (non-trivial = at least 20 transfers), and sequences of two or three rate-limited commands with different limits on one '
        'Repository object, each judged for its own limit with the data compared.  non-trivial = at least one sleep was requested (timing) / a rate-limited op slept '
        '(transparency); distinct = distinct scenario contents')


def exercise(scs, rep, rng, with_model=True):
    """run scenarios on the implementation, oracle, and (optionally) the model"""
    done = []
    for sc in scs:
        try:
            calls, consts = run_impl(sc, rng)
        except Exception as e:     # the code under test raised where a plain stream would not: keep going, report the input
            rep.disagreements.append({'what': f'the rate-limited wrapper raised {type(e).__name__}: {str(e)[:200]} in a timing scenario '
                                      f'({sc["family"]})', 'replay': sc_public(sc)})
            continue
        if sc.get('_short'):
            sh = sc['_short']
            verb = 'read' if sc['dir'] == 'r' else 'write'
            rep.violations.append({
                'what': (f'the rate-limited wrapper is not transparent: in call #{sh["call"]} of stream {sh["thread"]} the underlying stream '
                         f'{"delivered" if verb == "read" else "accepted"} {sh["underlying"]} bytes but {verb}() through the wrapper returned '
                         f'{sh["through_wrapper"]} (limit {sc["L"]} B/s, sizes so far {[int(c["size"]) for c in calls][-6:]})'),
                'signature': {'kind': 'transparency', 'stack': 'timing-' + sc['dir']},
                'replay': sc_public(sc)})
            rep.case((sc['L'], sc['dir'], sc['calls'], sc['order']), nontrivial=True)
            continue
        sc['_impl'] = calls
        sc['_consts'] = consts
        rep.case((sc['L'], sc['dir'], sc['calls'], sc['order']), nontrivial=any(c['sleep'] > 0 for c in calls))
        rep.count('family:' + sc['family'])
        rep.count('dir:' + sc['dir'])
        rep.count('calls', len(calls))
        rep.count('sleeps', sum(1 for c in calls if c['sleep'] > 0))
        if sc['family'] == 'multi-slow-io-probe':
            check_bound(dict(sc_public(sc), _inexact=sc['_inexact']), calls, consts, rep, kind_override='multi_stream_slow_io')
        else:
            check_bound(dict(sc_public(sc), _inexact=sc['_inexact']), calls, consts, rep)
        if sc['_inexact']:
            rep.count('float-inexact scenarios (model comparison skipped, oracle with 1e-9 tolerance)')
        else:
            done.append(sc)
    if done:
        rep.sample({k: (v if k != 'calls' else [t[:4] for t in v]) for k, v in sc_public(done[0]).items()})
    if with_model and done:
        vals, err = run_model(done)
        if vals is None:
            rep.disagreements.append({'what': 'the model could not be evaluated: ' + err, 'replay': None})
        else:
            for sc, val in zip(done, vals):
                rep.traces_validated += 1
                ok, mevs = canon_model(val)
                ievs = canon_impl(sc['_impl'])
                if not ok:
                    rep.disagreements.append({'what': 'the schedule produced by the harness is not a valid schedule of the model (mvalid = false)',
                                              'replay': sc_public(sc)})
                elif mevs != ievs:
                    i = next((i for i, (x, y) in enumerate(zip(mevs, ievs)) if x != y), min(len(mevs), len(ievs)))
                    rep.disagreements.append({
                        'what': (f'call #{i} (time, bytes, sleep requested, debt after): model '
                                 f'{[str(x) for x in mevs[i]] if i < len(mevs) else None} implementation '
                                 f'{[str(x) for x in ievs[i]] if i < len(ievs) else None}'),
                        'replay': sc_public(sc)})


# --------------------------------------------------------------------------- probes added after seeded changes
def command_chunk_sizes(limits=(16, 1000, 4000, 50_000), concurrents=(1, 2, 5)):
    """The chunk size each rate-limited command REALLY hands to the backend for a given limit and concurrency, observed by
    running the command against a recording in-memory backend (not recomputed from the formula)."""
    import asyncio, contextlib, tempfile, shutil
    from pathlib import Path
    from replicat.repository import Repository
    from harness.memstore import MemBackend
    seen = []          # (command, limit, concurrent, chunk_size)

    class Rec(MemBackend):
        def upload_stream(self, name, stream, length, chunk_size=128_000):
            self.sizes.append(chunk_size)
            return super().upload_stream(name, stream, length, chunk_size)

        def download_stream(self, name, stream, chunk_size=128_000):
            self.sizes.append(chunk_size)
            return super().download_stream(name, stream, chunk_size)

    d = Path(tempfile.mkdtemp(prefix='verif-c20-', dir='/var/tmp'))
    cwd = os.getcwd()
    try:
        (d / 'src').mkdir()
        (d / 'src' / 'f').write_bytes(b'x' * 300)
        os.chdir(d)

        async def go():
            for L in limits:
                for n in concurrents:
                    for command in ('snapshot', 'restore', 'upload_objects', 'download_objects'):
                        b = Rec()
                        b.sizes = []
                        r = Repository(b, concurrent=n, quiet=True, cache_directory=None)
                        orig_sleep = None
                        if command in ('snapshot', 'restore'):
                            await r.init(settings={'encryption': None, 'chunking': {'min_length': 64, 'max_length': 128}})
                            await r.snapshot(paths=[d / 'src'], rate_limit=L if command == 'snapshot' else None)
                            if command == 'restore':
                                b.sizes = []
                                await r.restore(path=d / f'out-{L}-{n}', rate_limit=L)
                        elif command == 'upload_objects':
                            await r.upload_objects([d / 'src' / 'f'], rate_limit=L)
                        else:
                            b.objects['o/x'] = b'y' * 300
                            await r.download_objects(path=d / f'dl-{L}-{n}', rate_limit=L)
                        for cs in set(b.sizes):
                            seen.append((command, L, n, cs))
        import io as _io
        with contextlib.redirect_stdout(_io.StringIO()), contextlib.redirect_stderr(_io.StringIO()), patched_time(Sim(1, exact=False)):
            asyncio.run(go())
    finally:
        os.chdir(cwd)
        shutil.rmtree(d, ignore_errors=True)
    return seen


def site_probe(rep, rng):
    """single stream reading in pieces of the chunk size a command really chose, as fast as the limiter lets it"""
    scs = []
    for command, L, n, cs in command_chunk_sizes():
        calls = [[fs(Fr(0)), fs(Fr(cs)), fs(Fr(0)), fs(Fr(0))] for _ in range(40)]
        scs.append({'threads': 1, 'L': L, 'dmax': cs, 'dir': 'r' if command in ('snapshot', 'upload_objects') else 'w', 'calls': [calls],
                    'stack': False, 'family': f'site:{command}', 'site': [command, L, n, cs]})
        rep.count(f'site chunk size {command}: limit {L} concurrent {n} -> {cs}')
    for sc in scs:
        calls, consts = run_impl(sc, rng)
        rep.case(('site', sc['site']), nontrivial=True)
        PL, TH = consts
        L = Fr(sc['L'])
        # the property's burst allowance is fixed: it may not grow with an oversized chunk, so it is computed from L / 4
        burst = L * PL + min(Fr(sc['dmax']), L / 4 if L >= 4 else Fr(1))
        best = max_window_excess([(c['time'], c['size']) for c in calls], L, burst)
        if best is not None and best[0] > 0 and sc['L'] >= 64:
            ex, t, T, by = best
            rep.violations.append({
                'what': (f'{sc["site"][0]} with limit {sc["L"]} B/s and concurrency {sc["site"][2]} transfers in pieces of {sc["site"][3]} bytes: '
                         f'{by} bytes pass in a window of {float(T):.6g} s (allowed {float(L * T + burst):.6g})'),
                'signature': {'kind': 'site_chunk_size', 'command': sc['site'][0]}, 'replay': {k: v for k, v in sc.items() if not k.startswith('_')}})


REAL_THREAD_CONFIGS = [   # (readers, writers, piece = L // k): at least 4 streams per direction, pieces of L/5 .. L/8
    (8, 0, 8), (6, 0, 5), (0, 6, 5), (4, 4, 8), (5, 0, 6), (0, 8, 8), (6, 6, 6), (7, 0, 7)]


def real_threads_run(L, readers, writers, d, seconds):
    """REAL threads through one limiter, real clock: every thread moves its share of [seconds] seconds' worth of payload (per
    direction) in pieces of d bytes as fast as the limiter lets it; the underlying streams note (perf_counter, bytes)."""
    import threading, time as _time
    from replicat import utils as U
    ev = {'r': [], 'w': []}
    elock = threading.Lock()

    class Tap(io.BytesIO):
        def read(self, size=-1):
            data = super().read(size)
            now = _time.perf_counter()
            with elock:
                ev['r'].append((now, len(data)))
            return data

        def write(self, data):
            k = super().write(data)
            now = _time.perf_counter()
            with elock:
                ev['w'].append((now, k))
            return k

    lim = U.RateLimitedIO(L)
    start = threading.Barrier(readers + writers)

    def reader(per):
        w = lim.wrap(Tap(b'z' * per))
        start.wait()
        while w.read(d):
            pass

    def writer(per):
        w = lim.wrap(Tap())
        start.wait()
        left = per
        while left > 0:
            left -= w.write(bytes(min(d, left)))

    ths = [threading.Thread(target=reader, args=(int(L * seconds) // readers,)) for _ in range(readers)]
    ths += [threading.Thread(target=writer, args=(int(L * seconds) // writers,)) for _ in range(writers)]
    for t in ths:
        t.start()
    for t in ths:
        t.join(120)
    return ev


def real_threads_check(rep, L, readers, writers, d, seconds):
    """Judged generously so that a loaded machine can never make the unchanged tree fail (load only delays transfers; a late
    timestamp can shift at most one piece per thread): windows of at least 0.5 s, 10 % on the rate, allowance
    L*PAUSE_LIMIT + (2n+1)*d.  A limiter that credits streams for time it did not make them wait shows a SUSTAINED excess
    (50-100 % over L), far beyond this."""
    from replicat import utils as U
    ev = real_threads_run(L, readers, writers, d, seconds)
    rep.case(('real-threads', L, readers, writers, d, seconds), nontrivial=True)
    rep.count(f'real threads: {readers} readers + {writers} writers, pieces L/{L // d}')
    found = False
    for direction, n in (('r', readers), ('w', writers)):
        e = sorted(x for x in ev[direction] if x[1])
        if not n or not e:
            continue
        burst = L * float(U.RateLimitedIO.PAUSE_LIMIT) + (2 * n + 1) * d
        worst = None
        for i in range(len(e)):
            by = 0
            for j in range(i, len(e)):
                by += e[j][1]
                T = e[j][0] - e[i][0]
                if T < 0.5:
                    continue
                ex = by - 1.10 * L * T - burst
                if worst is None or ex > worst[0]:
                    worst = (ex, T, by)
        if worst and worst[0] > 0:
            found = True
            rep.violations.append({
                'what': (f'{n} real threads {"reading" if direction == "r" else "writing"} through one limiter (limit {L} B/s, pieces of {d} bytes, '
                         f'{seconds} s worth of payload): {worst[2]} bytes reached the underlying streams within {worst[1]:.3f} s = '
                         f'{worst[2] / worst[1] / L:.2f} x the limit sustained; allowed 1.1*L*T + L*PAUSE_LIMIT + (2n+1)*d = {1.10 * L * worst[1] + burst:.0f}'),
                'signature': {'kind': 'real_threads_window', 'dir': direction},
                'replay': {'probe': 'real_threads', 'L': L, 'readers': readers, 'writers': writers, 'd': d, 'seconds': seconds}})
    return found


def real_threads_probe(rep, rng=None, rounds=1):
    """the commands' situation (4 streams, small pieces, 1.5 s) and [rounds] configurations with 3..8 streams per direction
    moving pieces of L/5 .. L/8 for about 10 s"""
    L = 200_000
    real_threads_check(rep, L, 4, 0, max(L // (4 * 16), 1), 1.5)
    import random as _random
    rng = rng or _random.Random(0)
    for readers, writers, k in rng.sample(REAL_THREAD_CONFIGS, min(rounds, len(REAL_THREAD_CONFIGS))):
        real_threads_check(rep, L, readers, writers, L // k, 10)


# --------------------------------------------------------------------------- command-level probe
class RecordingBackend:
    """In-memory backend with coroutine methods (so every transfer runs on the event loop, one at a time, and the single
    virtual clock is only touched by that thread).  It notes (virtual time, bytes) for every piece it reads from the
    stream it is given to upload and for every piece it writes into the stream it is given to download into - the payload
    the COMMAND lets through, whatever wrappers the command did or did not put around the stream."""

    def __init__(self, sim, extra_passes=0):
        self.sim = sim
        self.objects = {}
        self.events = []          # (virtual time, bytes, direction)
        self.chunk_sizes = set()
        # after a complete pass the backend rewinds the stream and transfers it again this many times - what the real
        # backends do when they hash a stream before sending it (S3) or retry after a fault (stream.seek(0) in the except path)
        self.extra_passes = extra_passes

    async def exists(self, name):
        return name in self.objects

    async def upload(self, name, data):
        self.objects[name] = bytes(data)

    async def upload_stream(self, name, stream, length, chunk_size=128_000):
        self.chunk_sizes.add(chunk_size)
        for attempt in range(1 + self.extra_passes):
            if attempt:
                stream.seek(0)
            parts = []
            while True:
                piece = stream.read(chunk_size)
                if not piece:
                    break
                self.events.append((self.sim.clock[0], len(piece), 'up'))
                parts.append(piece)
        self.objects[name] = b''.join(parts)

    async def download(self, name):
        return self.objects[name]

    async def download_stream(self, name, stream, chunk_size=128_000):
        self.chunk_sizes.add(chunk_size)
        data = self.objects[name]
        for attempt in range(1 + self.extra_passes):
            if attempt:
                stream.seek(0)
            stream.truncate(len(data))
            for i in range(0, len(data), chunk_size):
                n = stream.write(data[i:i + chunk_size])
                self.events.append((self.sim.clock[0], n, 'down'))

    async def list_files(self, prefix=''):
        for n in sorted(self.objects):
            if n.startswith(prefix):
                yield n

    async def delete(self, name):
        self.objects.pop(name, None)

    async def close(self):
        pass


class RecordingS3:
    """an S3 service behind httpx.MockTransport for the real S3-compatible adapter: it notes (virtual time, bytes) for every
    piece of a streamed request body as the transport pulls it - the payload that really leaves for the network"""

    def __init__(self, sim):
        self.sim = sim
        self.objects = {}
        self.events = []
        self.chunk_sizes = set()

    async def handler(self, request):
        import httpx
        path = bytes(request.url.raw_path).partition(b'?')[0]
        if request.method == 'PUT':
            streamed = not isinstance(request.stream, httpx.ByteStream)
            parts = []
            async for piece in request.stream:
                if streamed and piece:
                    self.events.append((self.sim.clock[0], len(piece), 'up'))
                    self.chunk_sizes.add(len(piece))
                parts.append(piece)
            self.objects[path] = b''.join(parts)
            return httpx.Response(200)
        if request.method == 'HEAD':
            return httpx.Response(200 if path in self.objects else 404)
        if request.method == 'DELETE':
            self.objects.pop(path, None)
            return httpx.Response(204)
        if b'list-type=2' in bytes(request.url.raw_path):
            return httpx.Response(200, content=b'<ListBucketResult><IsTruncated>false</IsTruncated></ListBucketResult>')
        if path in self.objects:
            return httpx.Response(200, content=self.objects[path])
        return httpx.Response(404)


@contextlib.contextmanager
def s3_adapter(service):
    """the real S3Compatible adapter, constructed by its own constructor, talking to [service] through a mock transport"""
    import httpx
    import replicat.backends.s3c as s3c
    from harness.c16 import HttpxProxy
    saved = s3c.httpx
    class Transport(httpx.AsyncBaseTransport):
        # not httpx.MockTransport: that one reads the whole request body before the handler runs
        async def handle_async_request(self, request):
            response = await service.handler(request)
            response.request = request
            return response
    s3c.httpx = HttpxProxy(Transport())
    try:
        yield s3c.S3Compatible('bkt', key_id='AK', access_key='SK', region='us-east-1', host='s3.verif.example', scheme='https')
    finally:
        s3c.httpx = saved


def gen_command_case(rng, command=None, variant=None):
    """a rate-limited command run: limit, concurrency, and the sizes of the files / objects it transfers - many of them
    no longer than the transfer chunk size the command chooses, some around it, some much longer"""
    L = rng.choice([2048, 4096, 8000, 8192, 20000, 65536])
    n = rng.choice([1, 2, 5, 5, 64])        # 64 connections: pieces of L // 1024 bytes, worth a millisecond
    chunk = max(L // (n * 16), 1)
    family = rng.choice(['small', 'small', 'boundary', 'mixed', 'large'])
    if variant == 's3-large':
        variant, family = 's3', 'large'     # whole files worth more than the burst allowance: what one unpaced send pass would let out at once
    # enough payload for about 3 seconds at the limit: the burst allowance is worth 0.5 - 0.65 s
    target = L * rng.choice([2, 3, 4])
    backend = 'recording'
    extra_passes = rng.choice([0, 0, 1, 2])
    cmd = command or rng.choice(['upload_objects', 'download_objects', 'snapshot', 'restore'])
    if cmd in ('upload_objects', 'snapshot') and rng.random() < 0.35:
        backend, extra_passes = 's3', 0        # the real S3 adapter makes its own two passes (digest, then send)
    chunk_len = None
    if variant == 'big-chunks':
        # the repository stores chunks of a quarter second's to several seconds' worth of the limit (a low limit on an ordinary
        # repository): a few files of a few chunks each; the pieces handed to the backend must still be the small transfer chunk
        variant = 'single'
        L = rng.choice([2048, 4096, 8000, 40000])
        chunk = max(L // (n * 16), 1)
        chunk_len = rng.choice([L // 2, L, 2 * L, 4 * L])
        family = 'big-chunks'
        target = 0
    if variant == 'single':
        backend, extra_passes = 'recording', 0
    elif variant == 'again':
        backend, extra_passes = 'recording', rng.choice([1, 2])
    elif variant == 's3' and cmd in ('upload_objects', 'snapshot'):
        backend, extra_passes = 's3', 0
    target //= 1 + extra_passes
    sizes = []
    if family == 'big-chunks':
        sizes = [rng.randint(chunk_len, 5 * chunk_len) for _ in range(rng.randint(1, 3))]
        while sum(sizes) < 3 * L:
            sizes.append(rng.randint(chunk_len, 5 * chunk_len))
    while sum(sizes) < target and len(sizes) < 900:
        if family == 'small':
            sizes.append(rng.randint(1, chunk))
        elif family == 'large':
            sizes.append(rng.randint(L // 2, 3 * L))
        elif family == 'boundary':
            sizes.append(max(1, chunk + rng.choice([-2, -1, 0, 0, 1, 2])))
        else:
            sizes.append(rng.choice([rng.randint(1, chunk), rng.randint(1, chunk), chunk, rng.randint(chunk + 1, 6 * chunk)]))
    return {'probe': 'command', 'command': cmd, 'L': L, 'n': n, 'sizes': sizes, 'family': family, 'seed': rng.randrange(2 ** 32),
            'backend': backend, 'extra_passes': extra_passes, 'chunk_len': chunk_len}


def run_command_case(case):
    """run the real command against the recording backend under the virtual clock; returns (events, chunk sizes, PAUSE_LIMIT)"""
    import asyncio, random, shutil, tempfile
    from pathlib import Path
    from replicat.repository import Repository
    import replicat.utils as U
    sim = Sim(1, exact=False)
    stack = contextlib.ExitStack()
    if case.get('backend') == 's3':
        be = rec = RecordingS3(sim)
        adapter = stack.enter_context(s3_adapter(rec))
    else:
        be = rec = adapter = RecordingBackend(sim, case.get('extra_passes', 0))
    L, n, sizes, command = case['L'], case['n'], case['sizes'], case['command']
    r = random.Random(case['seed'])
    d = Path(tempfile.mkdtemp(prefix='verif-c20cmd-', dir=os.environ.get('VERIF_SCRATCH', '/var/tmp')))
    cwd = os.getcwd()

    async def go():
        repo = Repository(adapter, concurrent=n, quiet=True, cache_directory=None)
        if command == 'upload_objects':
            paths = []
            for i, sz in enumerate(sizes):
                p = d / 'src' / f'f{i:04d}'
                p.write_bytes(r.randbytes(sz))
                paths.append(p)
            await repo.upload_objects(paths, rate_limit=L)
        elif command == 'download_objects':
            for i, sz in enumerate(sizes):
                be.objects[f'obj/o{i:04d}'] = r.randbytes(sz)
            await repo.download_objects(path=d / 'out', rate_limit=L)
        else:
            # chunk objects of a snapshot: the chunker is asked for pieces around the transfer chunk size, so that many
            # stored objects are no longer than one transfer chunk
            chunk = max(L // (n * 16), 1)
            mx = max(8, min(chunk, 4096) // 4 * 4)
            if case.get('chunk_len'):
                mx = max(8, case['chunk_len'] // 4 * 4)       # a repository whose chunks are long relative to the limit
            await repo.init(settings={'encryption': None, 'chunking': {'min_length': max(1, mx // 2), 'max_length': mx}})
            for i, sz in enumerate(sizes[:150]):
                (d / 'src' / f'f{i:04d}').write_bytes(r.randbytes(sz))
            if sum(sizes[150:]):
                (d / 'src' / 'rest').write_bytes(r.randbytes(sum(sizes[150:])))
            await repo.snapshot(paths=[d / 'src'], rate_limit=L if command == 'snapshot' else None)
            if command == 'restore':
                be.events.clear()
                be.chunk_sizes.clear()
                await repo.restore(path=d / 'out', rate_limit=L)
    try:
        (d / 'src').mkdir()
        os.chdir(d)
        with contextlib.redirect_stdout(io.StringIO()), contextlib.redirect_stderr(io.StringIO()), patched_time(sim), warnings.catch_warnings():
            warnings.simplefilter('ignore', DeprecationWarning)
            asyncio.run(go())
            pl = Fr(U.RateLimitedIO.PAUSE_LIMIT)
    finally:
        stack.close()
        os.chdir(cwd)
        shutil.rmtree(d, ignore_errors=True)
    want = 'up' if command in ('upload_objects', 'snapshot') else 'down'
    return [(t, b) for t, b, k in be.events if k == want], set(be.chunk_sizes), pl


def piece_size_violation(command, L, n, chunks, events, plan, replay, rep):
    """the pieces a rate-limited command asks the backend to transfer in - the chunk_size argument of upload_stream /
    download_stream and the reads / writes that really go through the stream - must be the transfer chunk the limit implies:
    never more than a quarter second's worth (the property's d <= L/4)"""
    cap = max(L // 4, 1)
    asked = max(chunks) if chunks else 0
    moved = max((b for _, b in events), default=0)
    if asked > cap or moved > cap:
        rep.violations.append({
            'what': (f'{plan}: {command} with rate limit {L} B/s and {n} connection(s) asked the backend to transfer in pieces of {asked} bytes '
                     f'(largest piece that went through the stream: {moved} bytes); the transfer chunk the limit implies is '
                     f'{max(L // (n * 16), 1)} bytes and never more than L/4 = {cap}'),
            'signature': {'kind': 'command_piece_size', 'command': command}, 'replay': replay})
        return True
    return False


def check_command_case(case, rep):
    """window oracle on the payload a rate-limited command hands to / takes from the backend"""
    events, chunks, PL = run_command_case(case)
    L, n = Fr(case['L']), case['n']
    rep.case(('command', case['command'], case['L'], n, case['sizes']), nontrivial=len(events) >= 20)
    rep.count('command:' + case['command'] + (':s3' if case.get('backend') == 's3' else f':passes={1 + case.get("extra_passes", 0)}'))
    rep.count('command transfers', len(events))
    if not events:
        rep.disagreements.append({'what': f'command probe: {case["command"]} transferred nothing through the backend streams', 'replay': case})
        return False
    how_chunks = f' on a repository with chunks of about {case["chunk_len"]} bytes' if case.get('chunk_len') else ''
    piece_size_violation(case['command'], case['L'], n, chunks, events, 'one command' + how_chunks, case, rep)
    # the property's fixed burst allowance: L*PAUSE_LIMIT + (n+1)*d_max with d_max the transfer chunk size, at most L/4
    dmax = min(Fr(max(chunks)) if chunks else L / 4, L / 4)
    burst = L * PL + (n + 1) * dmax
    best = max_window_excess_linear(events, L, burst)
    tol = (L * best[2] + burst) / 10 ** 6       # float clock
    if best[0] > tol:
        ex, t, T, by = best
        small = sum(1 for s_ in case['sizes'] if s_ <= max(case['L'] // (n * 16), 1))
        how = ('to the real S3-compatible adapter, bytes counted as the HTTP transport pulls the request bodies' if case.get('backend') == 's3'
               else f'to a backend that transfers every stream {1 + case.get("extra_passes", 0)} time(s), rewinding in between')
        rep.violations.append({
            'what': (f'{case["command"]} ({how}{how_chunks}) with rate limit {case["L"]} B/s, {n} connection(s), {len(case["sizes"])} files/objects '
                     f'({small} of them no longer than the transfer chunk of {max(case["L"] // (n * 16), 1)} bytes): the backend saw {by} payload bytes '
                     f'within {float(T):.6g} s of (virtual) time starting at {float(t):.6g} s; allowed L*T + L*PAUSE_LIMIT + (n+1)*d_max = {float(L * T + burst):.6g}'),
            'signature': {'kind': 'command_window', 'command': case['command'], 'backend': case.get('backend', 'recording')},
            'replay': case})
        return True
    return False


# --------------------------------------------------------------------------- sequences of rate-limited commands on ONE Repository
def gen_sequence_case(rng, descending=None):
    """two or three rate-limited commands, one after the other, on one long-lived Repository object, each with its own limit
    (high then low, low then high): every command is bound by ITS limit"""
    n = rng.choice([1, 2, 5])
    limits = rng.sample([2048, 4096, 8192, 20000, 65536, 200000], rng.choice([2, 2, 3]))
    if rng.random() < 0.5 if descending is None else descending:
        limits.sort(reverse=True)          # at least half of the sequences go from a high limit to a lower one
    elif descending is False:
        limits.sort()
    steps = []
    for L in limits:
        chunk = max(L // (n * 16), 1)
        command = rng.choice(['upload_objects', 'download_objects', 'snapshot', 'restore'])
        family = rng.choice(['small', 'mixed', 'mixed'])
        target = L * rng.choice([2, 3])
        sizes = []
        while sum(sizes) < target and len(sizes) < 400:
            sizes.append(rng.randint(1, chunk) if family == 'small' else
                         rng.choice([rng.randint(1, chunk), chunk, rng.randint(chunk + 1, 8 * chunk)]))
        steps.append({'command': command, 'L': L, 'sizes': sizes})
    # sometimes a repository whose chunks are long relative to the lowest limit of the sequence
    chunk_len = rng.choice([None, None, min(limits) // 2, min(limits) * 2])
    return {'probe': 'command_sequence', 'n': n, 'steps': steps, 'seed': rng.randrange(2 ** 32), 'chunk_len': chunk_len}


def run_sequence_case(case):
    """returns per step: (events, chunk sizes, data problems) and PAUSE_LIMIT"""
    import asyncio, random, shutil, tempfile
    from pathlib import Path
    from replicat.repository import Repository
    import replicat.utils as U
    sim = Sim(1, exact=False)
    be = RecordingBackend(sim)
    n = case['n']
    r = random.Random(case['seed'])
    d = Path(tempfile.mkdtemp(prefix='verif-c20seq-', dir=os.environ.get('VERIF_SCRATCH', '/var/tmp')))
    cwd = os.getcwd()
    results = []

    async def go():
        repo = Repository(be, concurrent=n, quiet=True, cache_directory=None)      # ONE object for the whole sequence
        initialised = False
        snapshots = []            # source directories snapshotted so far
        for k, step in enumerate(case['steps']):
            command, L, sizes = step['command'], step['L'], step['sizes']
            problems = []
            src = d / f'src{k}'
            src.mkdir()
            contents = {}
            for i, sz in enumerate(sizes[:150]):
                contents[f'f{i:04d}'] = r.randbytes(sz)
            if sum(sizes[150:]):
                contents['rest'] = r.randbytes(sum(sizes[150:]))
            if command in ('snapshot', 'restore') and not initialised:
                # stored objects about as long as the transfer chunk of the most generous limit of the sequence
                chunk = max(max(s_['L'] for s_ in case['steps']) // (n * 16), 1)
                mx = max(8, min(chunk, 4096) // 4 * 4)
                if case.get('chunk_len'):
                    mx = max(8, case['chunk_len'] // 4 * 4)
                await repo.init(settings={'encryption': None, 'chunking': {'min_length': max(1, mx // 2), 'max_length': mx}})
                initialised = True
            if command == 'upload_objects':
                for name, data in contents.items():
                    (src / name).write_bytes(data)
                be.events.clear(); be.chunk_sizes.clear()
                await repo.upload_objects([src / name for name in contents], rate_limit=L)
                for name, data in contents.items():
                    got = [v for key, v in be.objects.items() if key.endswith(f'src{k}/{name}')]
                    if got != [data]:
                        problems.append(f'uploaded object src{k}/{name} differs from its source')
                want = 'up'
            elif command == 'download_objects':
                for name, data in contents.items():
                    be.objects[f'dl{k}/{name}'] = data
                be.events.clear(); be.chunk_sizes.clear()
                await repo.download_objects(path=d / f'out{k}', object_regex=f'^dl{k}/', rate_limit=L)
                for name, data in contents.items():
                    f = d / f'out{k}' / f'dl{k}' / name
                    if not f.is_file() or f.read_bytes() != data:
                        problems.append(f'downloaded object dl{k}/{name} differs from what is stored')
                want = 'down'
            else:
                for name, data in contents.items():
                    (src / name).write_bytes(data)
                be.events.clear(); be.chunk_sizes.clear()
                await repo.snapshot(paths=[src], rate_limit=L if command == 'snapshot' else None)
                snapshots.append((src, contents))
                want = 'up'
                if command == 'restore':
                    be.events.clear(); be.chunk_sizes.clear()
                    await repo.restore(path=d / f'out{k}', rate_limit=L)
                    for sdir, cont in snapshots:
                        for name, data in cont.items():
                            hits = [f for f in (d / f'out{k}').rglob(name) if f.is_file() and sdir.name in f.parts]
                            if len(hits) != 1 or hits[0].read_bytes() != data:
                                problems.append(f'restored file {sdir.name}/{name} differs from its source')
                    want = 'down'
            results.append(([(t, b) for t, b, kind in be.events if kind == want], set(be.chunk_sizes), problems))
    try:
        os.chdir(d)
        with contextlib.redirect_stdout(io.StringIO()), contextlib.redirect_stderr(io.StringIO()), patched_time(sim):
            asyncio.run(go())
            pl = Fr(U.RateLimitedIO.PAUSE_LIMIT)
    finally:
        os.chdir(cwd)
        shutil.rmtree(d, ignore_errors=True)
    return results, pl


def check_sequence_case(case, rep):
    results, PL = run_sequence_case(case)
    n = case['n']
    rep.case(('sequence', n, [(s_['command'], s_['L'], s_['sizes']) for s_ in case['steps']]), nontrivial=True)
    rep.count('command sequence: ' + ' -> '.join(f'{s_["command"]}@{s_["L"]}' for s_ in case['steps']))
    found = False
    plan = ', then '.join(f'{s_["command"]} at {s_["L"]} B/s' for s_ in case['steps'])
    for k, (step, (events, chunks, problems)) in enumerate(zip(case['steps'], results)):
        L = Fr(step['L'])
        if problems:
            found = True
            rep.violations.append({'what': f'one Repository object, {n} connection(s), {plan}: in command #{k + 1} {problems[0]} ({len(problems)} such)',
                                   'signature': {'kind': 'command_sequence_data', 'command': step['command']}, 'replay': case})
        if not events:
            rep.disagreements.append({'what': f'command sequence: {step["command"]} transferred nothing through the backend streams', 'replay': case})
            continue
        if piece_size_violation(step['command'], step['L'], n, chunks, events, f'one Repository object, {plan}: command #{k + 1}', case, rep):
            found = True
        # each command is judged for ITS OWN limit; d_max is the transfer chunk that limit implies, at most L/4
        dmax = min(Fr(max(step['L'] // (n * 16), 1)), L / 4)
        burst = L * PL + (n + 1) * dmax
        best = max_window_excess_linear(events, L, burst)
        if best[0] > (L * best[2] + burst) / 10 ** 6:
            ex, t, T, by = best
            found = True
            rep.violations.append({
                'what': (f'one Repository object, {n} connection(s), {plan}: during command #{k + 1} ({step["command"]} with rate limit {step["L"]} B/s) '
                         f'the backend saw {by} payload bytes within {float(T):.6g} s of (virtual) time (pieces of up to {max(chunks) if chunks else "?"} bytes); '
                         f'allowed for this command L*T + L*PAUSE_LIMIT + (n+1)*d_max = {float(L * T + burst):.6g}'),
                'signature': {'kind': 'command_sequence_window', 'command': step['command']}, 'replay': case})
    return found


def command_probe(rep, rng, rounds):
    """every command x every way a backend may go over the stream (once; again after a rewind; the real S3 adapter), [rounds] times"""
    for command in ('upload_objects', 'download_objects', 'snapshot', 'restore'):
        variants = ['single', 'again'] + (['s3', 's3-large'] if command in ('upload_objects', 'snapshot') else [])
        variants += ['big-chunks'] * (2 if command == 'restore' else 1) if command in ('snapshot', 'restore') else []
        for _ in range(rounds):
            for variant in variants:
                case = gen_command_case(rng, command, variant)
                check_command_case(case, rep)
                if command == 'upload_objects' and variant == 'again':
                    rep.sample({k: (v if k != 'sizes' else v[:12] + ['...']) for k, v in case.items()})
    for i in range(4 * rounds):
        check_sequence_case(gen_sequence_case(rng, [True, False, None, True][i % 4]), rep)


def sc_public(sc):
    return {k: v for k, v in sc.items() if not k.startswith('_')}


def run(ctx) -> Report:
    rep = Report(rule=RULE)
    rng = ctx.rng
    scs = []
    for _ in range(ctx.scale(250, 2500)):
        scs.append(gen_single(rng, rng.choice([3, 8, 20, 40, ctx.scale(60, 150)])))
    for _ in range(ctx.scale(120, 1200)):
        scs.append(gen_multi(rng, rng.choice([6, 20, 40, ctx.scale(60, 150)])))
    for _ in range(ctx.scale(40, 400)):
        scs.append(gen_positioned(rng))
    for _ in range(ctx.scale(30, 300)):
        scs.append(gen_multi_large(rng))
    for _ in range(ctx.scale(4, 40)):
        scs.append(gen_tiny_pieces(rng))
    scs.append(slow_io_probe(rng, False))
    scs.append(slow_io_probe(rng, True))
    exercise(scs, rep, rng)
    site_probe(rep, rng)
    real_threads_probe(rep, rng, ctx.scale(1, 4))
    command_probe(rep, rng, ctx.scale(1, 8))
    for i in range(ctx.scale(1500, 20000)):
        check_transparency(transparency_case(rng, i), rep)
    return rep


def search(ctx, broken) -> Report:
    """Large model-free search: long adversarial runs (oracle only)."""
    rep = Report(rule=RULE)
    rng = ctx.rng
    scs = []
    for b in broken:
        c = b.get('case')
        if isinstance(c, dict) and 'calls' in c:
            scs.append(dict(c))
    for _ in range(1500):
        scs.append(gen_single(rng, rng.choice([20, 60, 150, 300])))
    for _ in range(500):
        scs.append(gen_multi(rng, rng.choice([40, 120, 300])))
    for _ in range(400):
        scs.append(gen_positioned(rng))
    for _ in range(300):
        scs.append(gen_multi_large(rng))
    for _ in range(40):
        scs.append(gen_tiny_pieces(rng))
    exercise(scs, rep, rng, with_model=False)
    site_probe(rep, rng)
    real_threads_probe(rep, rng, 3)
    command_probe(rep, rng, 12)
    for i in range(20000):
        if check_transparency(transparency_case(rng, i), rep) and len(rep.violations) > 5:
            break
    return rep


def replay(ctx, obj):
    rep = Report(rule=RULE)
    case = obj.get('replay') or {}
    if 'transparency' in case:
        check_transparency(case['transparency'], rep)
    elif 'calls' in case:
        exercise([dict(case)], rep, ctx.rng)
    elif case.get('probe') == 'command':
        check_command_case(case, rep)
    elif case.get('probe') == 'command_sequence':
        check_sequence_case(case, rep)
    elif case.get('probe') == 'real_threads' and 'readers' in case:
        real_threads_check(rep, case['L'], case['readers'], case['writers'], case['d'], case['seconds'])
    else:
        print('replay file does not carry a C20 case:', obj.get('kind'))
        return 0
    for v in rep.violations:
        print('VIOLATION-REPRODUCED', v['what'])
    for d in rep.disagreements:
        print('DISAGREEMENT-REPRODUCED', d['what'])
    return 1 if rep.violations or rep.disagreements else 0
