"""Registry fragment for C12 (see harness/registry.py)."""
from harness.registry import COMMON_TB

ENTRY = {
    'level': 'proof',
    'technique': ('Coq proofs over arbitrary fault sequences (retry loop, B2 on_backoff handler and bounded requires_auth as functions of a fault '
                  'sequence; streaming transfers as attempts with a fault allowed at every position; induction on the sequence) with the '
                  'except-path / truncate / budget hypotheses discharged from source facts + exhaustive fault enumeration on the real adapters '
                  'against fault-injecting fakes, compared with the model, + model-free oracle'),
    'design_ref': 'DESIGN.md section 4 C12; design/C12.md',
    'text': ('Theorems C12_upload_stream_masked / C12_download_stream_masked: for every backend flavour (local, S3, B2), every chunk size, '
             'payload, previous object and every sequence of fewer than max_tries consecutive faults (any position in the transfer, any kind '
             'except 403; B2 additionally at most MAX_REAUTH_ATTEMPTS) the operation succeeds after faults+1 tries with exactly the payload '
             'stored / exactly the object bytes in the stream, position at the end, no temporary file. C12_*_persistent_error / '
             'C12_b2_*_persistent_auth: persistent faults end in an error after exactly max_tries (resp. MAX_REAUTH_ATTEMPTS+1) tries with the '
             'stream rewound and the object old-or-complete. C12_tries_bounded: for EVERY fault sequence the number of tries is at most '
             'max_tries (local, S3) / (MAX_REAUTH_ATTEMPTS+1)*max_tries (B2). All closed under the global context; the hypotheses (except '
             'path rewinds, downloads truncate first, temp unlinked, budgets, giveup=403, decorators on every method, bounded re-auth, '
             'wrappers forward seek/truncate) are booleans/numbers regenerated from the source on every run. The same fault sequences are '
             'enumerated exhaustively (position x kind x run length 1..max_tries+1 x payload sizes around the chunk size) on the real '
             'adapters and compared with the model (outcome class, tries, re-authentications, final object, stream position).'),
    'note': ('What a fault does to the service (nothing / effect applied with the answer lost) and how httpx surfaces it are modelled; the '
             'fakes implement the same reading. B2 nested endpoints (fresh upload URL per try, authorisation) and the local list_files '
             'generator (never retried: its decorator wraps a generator function) are covered by the oracle only, not by a theorem. '
             'Defects 6 (unbounded B2 re-authentication) and 15 (local listing swallowed every OSError) are repaired in the repo.'),
    'trusted_base': COMMON_TB + ['fake S3 / B2 services and fault plans in harness/fakes_http.py; OSError injection at pathlib/shutil/tempfile/os entry points',
                                 'backoff 2.2.1 semantics (on_exception: giveup / max_tries / on_backoff order) as read from its source'],
    'assumptions': ['a fault makes the try raise an exception of the stated class (OSError / httpx.HTTPError / AuthRequired); a try without fault succeeds',
                    'PUT / upload / hide are idempotent at the service: a request whose answer was lost may have been applied completely, never partially',
                    'a service rejects a body shorter than the announced content-length (400)',
                    'BytesIO semantics of the payload streams: truncate only shrinks, writes at the position overwrite/extend',
                    'authentication itself succeeds in the theorems (faults of the authorisation request are explored by enumeration only)'],
}
