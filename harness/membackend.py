"""A tiny in-memory Backend (dict name -> bytes) used by the C04/C05/C18 harnesses.
Plain (non-async) methods, so replicat runs them in its executor threads, as it does for Local.
Every call is appended to `self.log` (C05 looks at every name that is sent to the backend)."""
from __future__ import annotations

import threading

from replicat.backends.base import Backend


class MemBackend(Backend):
    def __init__(self, objects=None, connection_string='mem'):
        self.objects = {} if objects is None else objects
        self.log = []
        self._lock = threading.Lock()

    def _note(self, *what):
        with self._lock:
            self.log.append(what)

    def exists(self, name):
        self._note('exists', name)
        return name in self.objects

    def upload(self, name, data):
        data = bytes(data)
        self._note('upload', name, data)
        self.objects[name] = data

    def upload_stream(self, name, stream, length, chunk_size=128_000):
        data = stream.read()
        self._note('upload', name, data)
        self.objects[name] = data

    def download(self, name):
        self._note('download', name)
        try:
            return self.objects[name]
        except KeyError:
            raise FileNotFoundError(name) from None

    def download_stream(self, name, stream, chunk_size=128_000):
        self._note('download', name)
        try:
            data = self.objects[name]
        except KeyError:
            raise FileNotFoundError(name) from None
        stream.write(data)

    def list_files(self, prefix=''):
        self._note('list', prefix)
        return sorted(n for n in list(self.objects) if n.startswith(prefix))

    def delete(self, name):
        self._note('delete', name)
        self.objects.pop(name, None)

    def clean(self):
        self._note('clean')


def snapshot_local(root):
    """Read a Local backend directory into a dict name -> bytes."""
    import os
    out = {}
    for dp, _, fns in os.walk(root):
        for fn in fns:
            p = os.path.join(dp, fn)
            out[os.path.relpath(p, root).replace(os.sep, '/')] = open(p, 'rb').read()
    return out


def write_local(root, objects):
    """Make a Local backend directory hold exactly `objects`."""
    import os
    import shutil
    if os.path.isdir(root):
        shutil.rmtree(root)
    os.makedirs(root)
    for name, data in objects.items():
        p = os.path.join(root, name)
        os.makedirs(os.path.dirname(p), exist_ok=True)
        with open(p, 'wb') as f:
            f.write(data)
