"""Registry fragment for C20 (filled in at the end)."""
from harness.registry import COMMON_TB
ENTRY = {
    'level': 'proof',
    'technique': 'Coq proof over Q (invariant on the amortised debt; window bound by induction over the call sequence) + translated limiter arithmetic (gen = model by reflexivity) + differential correspondence under a virtual clock + windowed-count and transparency oracles',
    'design_ref': 'design/C20.md; DESIGN.md section 4 C20',
    'text': 'see design/C20.md',
    'note': 'see design/C20.md',
    'trusted_base': COMMON_TB,
    'assumptions': [],
}
