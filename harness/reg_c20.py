"""Registry fragment for C20."""
from harness.registry import COMMON_TB
ENTRY = {
    'level': 'proof',
    'technique': ('Coq proof over Q (invariant on the amortised debt, window bound by induction over the call sequence; pigeonhole on '
                  'late calls for several streams) + limiter arithmetic translated from utils/__init__.py (gen = model by reflexivity) and '
                  'source facts (constants, chunk-size formula at the four sites) + differential correspondence of the real RateLimitedIO '
                  'under a discrete-event virtual clock + windowed-count and transparency oracles'),
    'design_ref': 'design/C20.md; DESIGN.md section 4 C20',
    'text': ('C20_single_stream_window_bound: one stream, all limits L>0, all size sequences with d <= dmax <= L/4, all caller gaps and '
             'underlying latencies >= 0, over-sleep <= O, all windows: bytes <= L*T + L*PAUSE_LIMIT + dmax + L*O (tight). '
             'C20_window_bound_at_sites: the same at the source constants and the chunk size of every rate-limited site. '
             'C20_cap_never_fires: no debt is forgiven. C20_multi_stream_window_bound_partial: n streams with zero underlying latency in '
             'any valid lock order: <= L*T + L*PAUSE_LIMIT + (n+1)*dmax. C20_wrapper_transparent: read/write/seek/tell/truncate through '
             'the wrapper return what the underlying stream returns, for every stream behaviour. The multi-stream clause in full '
             'generality is false (known finding, C20_multi_stream_slow_io_refuted). Interleavings of real threads are explored, not '
             'proved: logical threads under modelled lock semantics, compared call by call with the model.'),
    'note': ('Float rounding is not modelled (harness uses dyadic rationals so the real code computes exactly); sleep is exact up to an '
             'explicit over-sleep parameter; reads larger than the chunk size (e.g. the S3 digest pass) are outside the quantifier.'),
    'trusted_base': COMMON_TB + ['discrete-event simulation of threads and locks in harness/c20.py (virtual clock, SimLock)'],
    'assumptions': ['time.sleep sleeps at least the requested time (over-sleep bounded by O)', 'rationals for floats',
                    'threading.Lock semantics: one holder, sleep happens while holding the lock',
                    'several streams: underlying I/O latency is zero (in-memory payloads); otherwise see the known finding'],
}
